// shared by harness_sse.rs and harness_sse_prime.rs (each included as a CHILD module of the file defining the butterflies,
// so that private structs and private kernel methods are visible through `super::`)
use crate::array_utils::DoubleBuf;
use crate::FftDirection;
use num_complex::Complex;
fn any_cx32() -> Complex<f32> { Complex { re: f32::from_bits(kani::any()), im: f32::from_bits(kani::any()) } }
fn any_cx64() -> Complex<f64> { Complex { re: f64::from_bits(kani::any()), im: f64::from_bits(kani::any()) } }
use core::arch::x86_64::{__m128, __m128d};
// Kani asserts-and-assumes "no overflow" on every float simd_add/sub/mul, which makes everything after the first vector
// arithmetic unreachable (vacuous).  The eight arithmetic intrinsics RustFFT's SSE code uses are therefore replaced by
// lane-wise scalar stubs: they take and return registers by value and touch no memory, so memory safety, panics and the
// frame condition of the kernels are unaffected (values are irrelevant to them).
fn l4(a: __m128) -> [f32; 4] { unsafe { core::mem::transmute(a) } }
fn l2(a: __m128d) -> [f64; 2] { unsafe { core::mem::transmute(a) } }
fn v4(a: [f32; 4]) -> __m128 { unsafe { core::mem::transmute(a) } }
fn v2(a: [f64; 2]) -> __m128d { unsafe { core::mem::transmute(a) } }
pub fn stub_add_ps(a: __m128, b: __m128) -> __m128 { let (x, y) = (l4(a), l4(b)); v4([x[0] + y[0], x[1] + y[1], x[2] + y[2], x[3] + y[3]]) }
pub fn stub_sub_ps(a: __m128, b: __m128) -> __m128 { let (x, y) = (l4(a), l4(b)); v4([x[0] - y[0], x[1] - y[1], x[2] - y[2], x[3] - y[3]]) }
pub fn stub_mul_ps(a: __m128, b: __m128) -> __m128 { let (x, y) = (l4(a), l4(b)); v4([x[0] * y[0], x[1] * y[1], x[2] * y[2], x[3] * y[3]]) }
pub fn stub_addsub_ps(a: __m128, b: __m128) -> __m128 { let (x, y) = (l4(a), l4(b)); v4([x[0] - y[0], x[1] + y[1], x[2] - y[2], x[3] + y[3]]) }
pub fn stub_add_pd(a: __m128d, b: __m128d) -> __m128d { let (x, y) = (l2(a), l2(b)); v2([x[0] + y[0], x[1] + y[1]]) }
pub fn stub_sub_pd(a: __m128d, b: __m128d) -> __m128d { let (x, y) = (l2(a), l2(b)); v2([x[0] - y[0], x[1] - y[1]]) }
pub fn stub_mul_pd(a: __m128d, b: __m128d) -> __m128d { let (x, y) = (l2(a), l2(b)); v2([x[0] * y[0], x[1] * y[1]]) }
pub fn stub_addsub_pd(a: __m128d, b: __m128d) -> __m128d { let (x, y) = (l2(a), l2(b)); v2([x[0] - y[0], x[1] + y[1]]) }
macro_rules! bits_eq { ($a:expr, $b:expr, $n:expr) => { for i in 0..$n { assert!($a[i].re.to_bits() == $b[i].re.to_bits() && $a[i].im.to_bits() == $b[i].im.to_bits()); } } }
macro_rules! sse_kernel_harness {
    ($name:ident, $m:ident, $ty:ident, $n:expr, $t:ty, $any:ident, single) => {
        #[kani::proof]
        #[kani::unwind(66)]
        #[kani::stub(core::arch::x86_64::_mm_add_ps, stub_add_ps)]
        #[kani::stub(core::arch::x86_64::_mm_sub_ps, stub_sub_ps)]
        #[kani::stub(core::arch::x86_64::_mm_mul_ps, stub_mul_ps)]
        #[kani::stub(core::arch::x86_64::_mm_addsub_ps, stub_addsub_ps)]
        #[kani::stub(core::arch::x86_64::_mm_add_pd, stub_add_pd)]
        #[kani::stub(core::arch::x86_64::_mm_sub_pd, stub_sub_pd)]
        #[kani::stub(core::arch::x86_64::_mm_mul_pd, stub_mul_pd)]
        #[kani::stub(core::arch::x86_64::_mm_addsub_pd, stub_addsub_pd)]
        fn $name() {
            let d = if kani::any() { FftDirection::Forward } else { FftDirection::Inverse };
            #[allow(unused_unsafe)] let f = unsafe { super::$ty::<$t>::new(d) };
            assert!(crate::Length::len(&f) == $n);
            assert!(crate::Direction::fft_direction(&f) == d);
            let mut a: [Complex<$t>; $n] = [Complex { re: 0.0, im: 0.0 }; $n];
            for i in 0..$n { a[i] = $any(); }
            let before: [Complex<$t>; $n] = a;
            let mut b: [Complex<$t>; $n] = [Complex { re: 0.0, im: 0.0 }; $n];
            unsafe { f.perform_fft_contiguous(DoubleBuf { input: &a[..], output: &mut b[..] }); }
            bits_eq!(a, before, $n);
            unsafe { f.perform_fft_contiguous(&mut a[..]); }
            kani::cover!(true, "end of harness reachable");
        }
    };
    ($name:ident, $m:ident, $ty:ident, $n:expr, $t:ty, $any:ident, parallel) => {
        #[kani::proof]
        #[kani::unwind(66)]
        #[kani::stub(core::arch::x86_64::_mm_add_ps, stub_add_ps)]
        #[kani::stub(core::arch::x86_64::_mm_sub_ps, stub_sub_ps)]
        #[kani::stub(core::arch::x86_64::_mm_mul_ps, stub_mul_ps)]
        #[kani::stub(core::arch::x86_64::_mm_addsub_ps, stub_addsub_ps)]
        #[kani::stub(core::arch::x86_64::_mm_add_pd, stub_add_pd)]
        #[kani::stub(core::arch::x86_64::_mm_sub_pd, stub_sub_pd)]
        #[kani::stub(core::arch::x86_64::_mm_mul_pd, stub_mul_pd)]
        #[kani::stub(core::arch::x86_64::_mm_addsub_pd, stub_addsub_pd)]
        fn $name() {
            let d = if kani::any() { FftDirection::Forward } else { FftDirection::Inverse };
            #[allow(unused_unsafe)] let f = unsafe { super::$ty::<$t>::new(d) };
            let mut a: [Complex<$t>; 2 * $n] = [Complex { re: 0.0, im: 0.0 }; 2 * $n];
            for i in 0..2 * $n { a[i] = $any(); }
            let before: [Complex<$t>; 2 * $n] = a;
            let mut b: [Complex<$t>; 2 * $n] = [Complex { re: 0.0, im: 0.0 }; 2 * $n];
            unsafe { f.perform_parallel_fft_contiguous(DoubleBuf { input: &a[..], output: &mut b[..] }); }
            bits_eq!(a, before, 2 * $n);
            unsafe { f.perform_parallel_fft_contiguous(&mut a[..]); }
            kani::cover!(true, "end of harness reachable");
        }
    };
}
