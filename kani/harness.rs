// Kani harnesses, compiled *inside* the real crate through the cfg hook `verif_kani` (src/lib.rs).
// Only loop-free, full-domain (= complete) harnesses live here; bounded exploration is done natively (replay/).
use crate::twiddles::rotate_90;
use crate::FftDirection;
use num_complex::Complex;

// rotate_90 is multiplication by -i (forward) / +i (inverse), bit for bit, for every f32 bit pattern (NaN payloads included),
// and the two directions undo each other exactly (C01 sign convention, C06 forward/inverse consistency)
#[kani::proof]
fn rotate90_f32_complete() {
    let re = f32::from_bits(kani::any());
    let im = f32::from_bits(kani::any());
    let v = Complex { re, im };
    let f = rotate_90(v, FftDirection::Forward);
    assert!(f.re.to_bits() == im.to_bits());
    assert!(f.im.to_bits() == (-re).to_bits());
    let i = rotate_90(v, FftDirection::Inverse);
    assert!(i.re.to_bits() == (-im).to_bits());
    assert!(i.im.to_bits() == re.to_bits());
    let back = rotate_90(f, FftDirection::Inverse);
    assert!(back.re.to_bits() == re.to_bits() && back.im.to_bits() == im.to_bits());
}
#[kani::proof]
fn rotate90_f64_complete() {
    let re = f64::from_bits(kani::any());
    let im = f64::from_bits(kani::any());
    let v = Complex { re, im };
    let f = rotate_90(v, FftDirection::Forward);
    assert!(f.re.to_bits() == im.to_bits());
    assert!(f.im.to_bits() == (-re).to_bits());
    let i = rotate_90(v, FftDirection::Inverse);
    assert!(i.re.to_bits() == (-im).to_bits());
    assert!(i.im.to_bits() == re.to_bits());
    let back = rotate_90(f, FftDirection::Inverse);
    assert!(back.re.to_bits() == re.to_bits() && back.im.to_bits() == im.to_bits());
}
// FftDirection::opposite_direction is an involution without fixed points
#[kani::proof]
fn opposite_direction_complete() {
    let d = if kani::any() { FftDirection::Forward } else { FftDirection::Inverse };
    assert!(d.opposite_direction() != d);
    assert!(d.opposite_direction().opposite_direction() == d);
}
