// Kani harnesses, compiled *inside* the real crate through the cfg hook `verif_kani` (src/lib.rs).
// Only loop-free, full-domain (= complete) harnesses live here; bounded exploration is done natively (replay/).
use crate::twiddles::rotate_90;
use crate::FftDirection;
use num_complex::Complex;

// rotate_90 is multiplication by -i (forward) / +i (inverse), bit for bit, for every f32 bit pattern (NaN payloads included),
// and the two directions undo each other exactly (C01 sign convention, C06 forward/inverse consistency)
#[kani::proof]
fn rotate90_f32_complete() {
    let re = f32::from_bits(kani::any());
    let im = f32::from_bits(kani::any());
    let v = Complex { re, im };
    let f = rotate_90(v, FftDirection::Forward);
    assert!(f.re.to_bits() == im.to_bits());
    assert!(f.im.to_bits() == (-re).to_bits());
    let i = rotate_90(v, FftDirection::Inverse);
    assert!(i.re.to_bits() == (-im).to_bits());
    assert!(i.im.to_bits() == re.to_bits());
    let back = rotate_90(f, FftDirection::Inverse);
    assert!(back.re.to_bits() == re.to_bits() && back.im.to_bits() == im.to_bits());
}
#[kani::proof]
fn rotate90_f64_complete() {
    let re = f64::from_bits(kani::any());
    let im = f64::from_bits(kani::any());
    let v = Complex { re, im };
    let f = rotate_90(v, FftDirection::Forward);
    assert!(f.re.to_bits() == im.to_bits());
    assert!(f.im.to_bits() == (-re).to_bits());
    let i = rotate_90(v, FftDirection::Inverse);
    assert!(i.re.to_bits() == (-im).to_bits());
    assert!(i.im.to_bits() == re.to_bits());
    let back = rotate_90(f, FftDirection::Inverse);
    assert!(back.re.to_bits() == re.to_bits() && back.im.to_bits() == im.to_bits());
}
// FftDirection::opposite_direction is an involution without fixed points
#[kani::proof]
fn opposite_direction_complete() {
    let d = if kani::any() { FftDirection::Forward } else { FftDirection::Inverse };
    assert!(d.opposite_direction() != d);
    assert!(d.opposite_direction().opposite_direction() == d);
}

// ---- fixed-size scalar butterfly kernels: complete per kernel (C03, C09, C15) -------------------------------------------------
// Every index in these kernels is a constant (or ranges over a constant loop), so one symbolic execution over ALL element
// values and both directions is a complete proof that the kernel, called the way the (Verus-verified) helpers call it -
// with exactly `len` elements - (a) dereferences only inside its buffers (CBMC pointer checks on the get_unchecked
// accesses of LoadStore), (b) reaches no panic, (c) in the DoubleBuf (immutable-input) form leaves the input bit-identical.
// The three LoadStore implementations are exercised: `&mut [Complex<T>]`, `&mut [Complex<T>; N]`, `DoubleBuf`.
fn any_cx32() -> Complex<f32> { Complex { re: f32::from_bits(kani::any()), im: f32::from_bits(kani::any()) } }
fn any_cx64() -> Complex<f64> { Complex { re: f64::from_bits(kani::any()), im: f64::from_bits(kani::any()) } }
macro_rules! butterfly_kernel_harness {
    ($name:ident, $ty:ident, $n:expr, $t:ty, $any:ident) => {
        #[kani::proof]
        #[kani::unwind(34)]
        fn $name() {
            use crate::array_utils::DoubleBuf;
            let d = if kani::any() { FftDirection::Forward } else { FftDirection::Inverse };
            let f = crate::algorithm::butterflies::$ty::<$t>::new(d);
            assert!(crate::Length::len(&f) == $n);
            assert!(crate::Direction::fft_direction(&f) == d);
            let mut a: [Complex<$t>; $n] = [Complex { re: 0.0, im: 0.0 }; $n];
            for i in 0..$n { a[i] = $any(); }
            let before: [Complex<$t>; $n] = a;
            let mut b: [Complex<$t>; $n] = [Complex { re: 0.0, im: 0.0 }; $n];
            unsafe {
                f.perform_fft_butterfly(DoubleBuf { input: &a[..], output: &mut b[..] });
            }
            for i in 0..$n { assert!(a[i].re.to_bits() == before[i].re.to_bits() && a[i].im.to_bits() == before[i].im.to_bits()); }
            unsafe {
                f.perform_fft_butterfly(&mut a[..]);
                f.perform_fft_butterfly(&mut b);
            }
            kani::cover!(true, "end of harness reachable");
        }
    };
}
butterfly_kernel_harness!(butterfly2_kernel_f32, Butterfly2, 2, f32, any_cx32);
butterfly_kernel_harness!(butterfly3_kernel_f32, Butterfly3, 3, f32, any_cx32);
butterfly_kernel_harness!(butterfly4_kernel_f32, Butterfly4, 4, f32, any_cx32);
butterfly_kernel_harness!(butterfly5_kernel_f32, Butterfly5, 5, f32, any_cx32);
butterfly_kernel_harness!(butterfly6_kernel_f32, Butterfly6, 6, f32, any_cx32);
butterfly_kernel_harness!(butterfly7_kernel_f32, Butterfly7, 7, f32, any_cx32);
butterfly_kernel_harness!(butterfly8_kernel_f32, Butterfly8, 8, f32, any_cx32);
butterfly_kernel_harness!(butterfly9_kernel_f32, Butterfly9, 9, f32, any_cx32);
butterfly_kernel_harness!(butterfly11_kernel_f32, Butterfly11, 11, f32, any_cx32);
butterfly_kernel_harness!(butterfly12_kernel_f32, Butterfly12, 12, f32, any_cx32);
butterfly_kernel_harness!(butterfly13_kernel_f32, Butterfly13, 13, f32, any_cx32);
butterfly_kernel_harness!(butterfly16_kernel_f32, Butterfly16, 16, f32, any_cx32);
butterfly_kernel_harness!(butterfly17_kernel_f32, Butterfly17, 17, f32, any_cx32);
butterfly_kernel_harness!(butterfly19_kernel_f32, Butterfly19, 19, f32, any_cx32);
butterfly_kernel_harness!(butterfly23_kernel_f32, Butterfly23, 23, f32, any_cx32);
butterfly_kernel_harness!(butterfly24_kernel_f32, Butterfly24, 24, f32, any_cx32);
butterfly_kernel_harness!(butterfly27_kernel_f32, Butterfly27, 27, f32, any_cx32);
butterfly_kernel_harness!(butterfly29_kernel_f32, Butterfly29, 29, f32, any_cx32);
butterfly_kernel_harness!(butterfly31_kernel_f32, Butterfly31, 31, f32, any_cx32);
butterfly_kernel_harness!(butterfly32_kernel_f32, Butterfly32, 32, f32, any_cx32);
butterfly_kernel_harness!(butterfly2_kernel_f64, Butterfly2, 2, f64, any_cx64);
butterfly_kernel_harness!(butterfly3_kernel_f64, Butterfly3, 3, f64, any_cx64);
butterfly_kernel_harness!(butterfly4_kernel_f64, Butterfly4, 4, f64, any_cx64);
butterfly_kernel_harness!(butterfly5_kernel_f64, Butterfly5, 5, f64, any_cx64);
butterfly_kernel_harness!(butterfly6_kernel_f64, Butterfly6, 6, f64, any_cx64);
butterfly_kernel_harness!(butterfly7_kernel_f64, Butterfly7, 7, f64, any_cx64);
butterfly_kernel_harness!(butterfly8_kernel_f64, Butterfly8, 8, f64, any_cx64);
butterfly_kernel_harness!(butterfly9_kernel_f64, Butterfly9, 9, f64, any_cx64);
butterfly_kernel_harness!(butterfly11_kernel_f64, Butterfly11, 11, f64, any_cx64);
butterfly_kernel_harness!(butterfly12_kernel_f64, Butterfly12, 12, f64, any_cx64);
butterfly_kernel_harness!(butterfly13_kernel_f64, Butterfly13, 13, f64, any_cx64);
butterfly_kernel_harness!(butterfly16_kernel_f64, Butterfly16, 16, f64, any_cx64);
butterfly_kernel_harness!(butterfly17_kernel_f64, Butterfly17, 17, f64, any_cx64);
butterfly_kernel_harness!(butterfly19_kernel_f64, Butterfly19, 19, f64, any_cx64);
butterfly_kernel_harness!(butterfly23_kernel_f64, Butterfly23, 23, f64, any_cx64);
butterfly_kernel_harness!(butterfly24_kernel_f64, Butterfly24, 24, f64, any_cx64);
butterfly_kernel_harness!(butterfly27_kernel_f64, Butterfly27, 27, f64, any_cx64);
butterfly_kernel_harness!(butterfly29_kernel_f64, Butterfly29, 29, f64, any_cx64);
butterfly_kernel_harness!(butterfly31_kernel_f64, Butterfly31, 31, f64, any_cx64);
butterfly_kernel_harness!(butterfly32_kernel_f64, Butterfly32, 32, f64, any_cx64);

// ---- array_utils: the two re-typing helpers and LoadStore on slices / arrays (quick tier; loop-free, all lengths up to the array) ----
// These discharge two declared rewrites of the Verus extraction: R17 (`workaround_transmute[_mut]` is the identity on pointer and
// length once the element types agree) and R2b (`LoadStore::load/store` on a slice or array is `get_unchecked[_mut]` of that index:
// with idx < len - the debug_assert the kernels' obligations discharge - it touches exactly that element).
#[kani::proof]
fn array_utils_transmute_identity() {
    let a: [Complex<f32>; 3] = [any_cx32(), any_cx32(), any_cx32()];
    let n: usize = kani::any();
    kani::assume(n <= 3);
    let s = &a[..n];
    let r: &[Complex<f32>] = unsafe { crate::array_utils::workaround_transmute(s) };
    assert!(r.as_ptr() == s.as_ptr() && r.len() == s.len());
    let mut b: [Complex<f64>; 3] = [any_cx64(), any_cx64(), any_cx64()];
    let s2 = &mut b[..n];
    let (p, l) = (s2.as_ptr(), s2.len());
    let r2: &mut [Complex<f64>] = unsafe { crate::array_utils::workaround_transmute_mut(s2) };
    assert!(r2.as_ptr() == p && r2.len() == l);
    kani::cover!(n == 3);
}
#[kani::proof]
#[kani::unwind(6)]
fn array_utils_loadstore_slice() {
    use crate::array_utils::LoadStore;
    let mut a: [Complex<f32>; 4] = [any_cx32(), any_cx32(), any_cx32(), any_cx32()];
    let before = a;
    let n: usize = kani::any();
    let idx: usize = kani::any();
    kani::assume(n <= 4 && idx < n);
    let v = any_cx32();
    {
        let mut s: &mut [Complex<f32>] = &mut a[..n];
        let got = unsafe { s.load(idx) };
        assert!(got.re.to_bits() == before[idx].re.to_bits() && got.im.to_bits() == before[idx].im.to_bits());
        unsafe { s.store(v, idx) };
    }
    let mut k = 0;
    while k < 4 {
        if k == idx { assert!(a[k].re.to_bits() == v.re.to_bits() && a[k].im.to_bits() == v.im.to_bits()); }
        else { assert!(a[k].re.to_bits() == before[k].re.to_bits() && a[k].im.to_bits() == before[k].im.to_bits()); }
        k += 1;
    }
    kani::cover!(n == 4 && idx == 3);
}
#[kani::proof]
#[kani::unwind(6)]
fn array_utils_loadstore_array() {
    use crate::array_utils::LoadStore;
    let mut a: [Complex<f64>; 3] = [any_cx64(), any_cx64(), any_cx64()];
    let before = a;
    let idx: usize = kani::any();
    kani::assume(idx < 3);
    let v = any_cx64();
    {
        let mut s: &mut [Complex<f64>; 3] = &mut a;
        let got = unsafe { s.load(idx) };
        assert!(got.re.to_bits() == before[idx].re.to_bits() && got.im.to_bits() == before[idx].im.to_bits());
        unsafe { s.store(v, idx) };
    }
    let mut k = 0;
    while k < 3 {
        if k == idx { assert!(a[k].re.to_bits() == v.re.to_bits() && a[k].im.to_bits() == v.im.to_bits()); }
        else { assert!(a[k].re.to_bits() == before[k].re.to_bits() && a[k].im.to_bits() == before[k].im.to_bits()); }
        k += 1;
    }
    kani::cover!(idx == 2);
}
