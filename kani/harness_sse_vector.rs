// ---- SSE memory accessors (src/sse/sse_vector.rs): complete per accessor (C03) ------------------------------------------------------
// Same argument as kani/harness_avx_vector.rs: every SseArray[Mut] accessor is run on a buffer of exactly k elements and on the last
// k elements of a longer buffer (k = what its debug_assert demands); CBMC pointer checks + an untouched-neighbour assertion.
// (the f64 partial / broadcast accessors are `unimplemented!()` in the crate - never called - and have no harness)
use super::*;
fn any32() -> Complex<f32> { Complex { re: kani::any(), im: kani::any() } }
fn any64() -> Complex<f64> { Complex { re: kani::any(), im: kani::any() } }
macro_rules! sse_load_harness {
    ($name:ident, $ty:ty, $any:ident, $k:expr, $method:ident) => {
        #[kani::proof]
        fn $name() {
            let a: [Complex<$ty>; $k] = [$any(); $k];
            let s: &[Complex<$ty>] = &a;
            let v = unsafe { s.$method(0) };
            core::hint::black_box(v);
            let b: [Complex<$ty>; $k + 3] = [$any(); $k + 3];
            let t: &[Complex<$ty>] = &b;
            let w = unsafe { t.$method(3) };
            core::hint::black_box(w);
            kani::cover!(true, "end of harness reachable");
        }
    };
}
macro_rules! sse_store_harness {
    ($name:ident, $ty:ty, $any:ident, $k:expr, $load:ident, $store:ident, $src:expr) => {
        #[kani::proof]
        fn $name() {
            let src: [Complex<$ty>; $src] = [$any(); $src];
            let s: &[Complex<$ty>] = &src;
            let v = unsafe { s.$load(0) };
            let mut a: [Complex<$ty>; $k] = [$any(); $k];
            { let mut d: &mut [Complex<$ty>] = &mut a; unsafe { d.$store(v, 0) }; }
            // in the middle of a longer buffer: both neighbours keep their bits
            let mut b: [Complex<$ty>; $k + 4] = [$any(); $k + 4];
            let (lo, hi) = (b[1], b[2 + $k]);
            { let mut d: &mut [Complex<$ty>] = &mut b; unsafe { d.$store(v, 2) }; }
            assert!(b[1].re.to_bits() == lo.re.to_bits() && b[1].im.to_bits() == lo.im.to_bits());
            assert!(b[2 + $k].re.to_bits() == hi.re.to_bits() && b[2 + $k].im.to_bits() == hi.im.to_bits());
            kani::cover!(true, "end of harness reachable");
        }
    };
}
sse_load_harness!(sse_f32_load_complex, f32, any32, 2, load_complex);
sse_load_harness!(sse_f32_load_partial_lo, f32, any32, 1, load_partial_lo_complex);
sse_load_harness!(sse_f32_load1, f32, any32, 1, load1_complex);
sse_load_harness!(sse_f64_load_complex, f64, any64, 1, load_complex);
sse_store_harness!(sse_f32_store_complex, f32, any32, 2, load_complex, store_complex, 2);
sse_store_harness!(sse_f32_store_partial_lo, f32, any32, 1, load_partial_lo_complex, store_partial_lo_complex, 1);
sse_store_harness!(sse_f64_store_complex, f64, any64, 1, load_complex, store_complex, 1);
