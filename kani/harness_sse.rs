// ---- SSE butterfly kernels: complete per kernel (C03, C07 two-chunk form, C09, C15); only with `--features sse` ---------------
// Same argument as above.  The single-chunk kernel is run on exactly `len` elements, the two-chunks-at-a-time kernel
// (`perform_parallel_fft_contiguous`, f32 only) on exactly `2 * len` elements - the shapes the Verus-verified
// `fft_helper_*_unroll2x` helpers hand to them - through both SseArrayMut implementations (`&mut [Complex<T>]`, `DoubleBuf`).
include!(concat!(env!("EJMAHLER_RUSTFFT_VERIF_DIR"), "/kani/sse_macros.rs"));
sse_kernel_harness!(sse_f32_butterfly1_single, sse_butterflies, SseF32Butterfly1, 1, f32, any_cx32, single);
sse_kernel_harness!(sse_f32_butterfly1_parallel, sse_butterflies, SseF32Butterfly1, 1, f32, any_cx32, parallel);
sse_kernel_harness!(sse_f64_butterfly1_single, sse_butterflies, SseF64Butterfly1, 1, f64, any_cx64, single);
sse_kernel_harness!(sse_f32_butterfly2_single, sse_butterflies, SseF32Butterfly2, 2, f32, any_cx32, single);
sse_kernel_harness!(sse_f32_butterfly2_parallel, sse_butterflies, SseF32Butterfly2, 2, f32, any_cx32, parallel);
sse_kernel_harness!(sse_f64_butterfly2_single, sse_butterflies, SseF64Butterfly2, 2, f64, any_cx64, single);
sse_kernel_harness!(sse_f32_butterfly3_single, sse_butterflies, SseF32Butterfly3, 3, f32, any_cx32, single);
sse_kernel_harness!(sse_f32_butterfly3_parallel, sse_butterflies, SseF32Butterfly3, 3, f32, any_cx32, parallel);
sse_kernel_harness!(sse_f64_butterfly3_single, sse_butterflies, SseF64Butterfly3, 3, f64, any_cx64, single);
sse_kernel_harness!(sse_f32_butterfly4_single, sse_butterflies, SseF32Butterfly4, 4, f32, any_cx32, single);
sse_kernel_harness!(sse_f32_butterfly4_parallel, sse_butterflies, SseF32Butterfly4, 4, f32, any_cx32, parallel);
sse_kernel_harness!(sse_f64_butterfly4_single, sse_butterflies, SseF64Butterfly4, 4, f64, any_cx64, single);
sse_kernel_harness!(sse_f32_butterfly5_single, sse_butterflies, SseF32Butterfly5, 5, f32, any_cx32, single);
sse_kernel_harness!(sse_f32_butterfly5_parallel, sse_butterflies, SseF32Butterfly5, 5, f32, any_cx32, parallel);
sse_kernel_harness!(sse_f64_butterfly5_single, sse_butterflies, SseF64Butterfly5, 5, f64, any_cx64, single);
sse_kernel_harness!(sse_f32_butterfly6_single, sse_butterflies, SseF32Butterfly6, 6, f32, any_cx32, single);
sse_kernel_harness!(sse_f32_butterfly6_parallel, sse_butterflies, SseF32Butterfly6, 6, f32, any_cx32, parallel);
sse_kernel_harness!(sse_f64_butterfly6_single, sse_butterflies, SseF64Butterfly6, 6, f64, any_cx64, single);
sse_kernel_harness!(sse_f32_butterfly8_single, sse_butterflies, SseF32Butterfly8, 8, f32, any_cx32, single);
sse_kernel_harness!(sse_f32_butterfly8_parallel, sse_butterflies, SseF32Butterfly8, 8, f32, any_cx32, parallel);
sse_kernel_harness!(sse_f64_butterfly8_single, sse_butterflies, SseF64Butterfly8, 8, f64, any_cx64, single);
sse_kernel_harness!(sse_f32_butterfly9_single, sse_butterflies, SseF32Butterfly9, 9, f32, any_cx32, single);
sse_kernel_harness!(sse_f32_butterfly9_parallel, sse_butterflies, SseF32Butterfly9, 9, f32, any_cx32, parallel);
sse_kernel_harness!(sse_f64_butterfly9_single, sse_butterflies, SseF64Butterfly9, 9, f64, any_cx64, single);
sse_kernel_harness!(sse_f32_butterfly10_single, sse_butterflies, SseF32Butterfly10, 10, f32, any_cx32, single);
sse_kernel_harness!(sse_f32_butterfly10_parallel, sse_butterflies, SseF32Butterfly10, 10, f32, any_cx32, parallel);
sse_kernel_harness!(sse_f64_butterfly10_single, sse_butterflies, SseF64Butterfly10, 10, f64, any_cx64, single);
sse_kernel_harness!(sse_f32_butterfly12_single, sse_butterflies, SseF32Butterfly12, 12, f32, any_cx32, single);
sse_kernel_harness!(sse_f32_butterfly12_parallel, sse_butterflies, SseF32Butterfly12, 12, f32, any_cx32, parallel);
sse_kernel_harness!(sse_f64_butterfly12_single, sse_butterflies, SseF64Butterfly12, 12, f64, any_cx64, single);
sse_kernel_harness!(sse_f32_butterfly15_single, sse_butterflies, SseF32Butterfly15, 15, f32, any_cx32, single);
sse_kernel_harness!(sse_f32_butterfly15_parallel, sse_butterflies, SseF32Butterfly15, 15, f32, any_cx32, parallel);
sse_kernel_harness!(sse_f64_butterfly15_single, sse_butterflies, SseF64Butterfly15, 15, f64, any_cx64, single);
sse_kernel_harness!(sse_f32_butterfly16_single, sse_butterflies, SseF32Butterfly16, 16, f32, any_cx32, single);
sse_kernel_harness!(sse_f64_butterfly16_single, sse_butterflies, SseF64Butterfly16, 16, f64, any_cx64, single);
sse_kernel_harness!(sse_f32_butterfly24_single, sse_butterflies, SseF32Butterfly24, 24, f32, any_cx32, single);
sse_kernel_harness!(sse_f32_butterfly24_parallel, sse_butterflies, SseF32Butterfly24, 24, f32, any_cx32, parallel);
sse_kernel_harness!(sse_f64_butterfly24_single, sse_butterflies, SseF64Butterfly24, 24, f64, any_cx64, single);
sse_kernel_harness!(sse_f32_butterfly32_single, sse_butterflies, SseF32Butterfly32, 32, f32, any_cx32, single);
sse_kernel_harness!(sse_f32_butterfly32_parallel, sse_butterflies, SseF32Butterfly32, 32, f32, any_cx32, parallel);
sse_kernel_harness!(sse_f64_butterfly32_single, sse_butterflies, SseF64Butterfly32, 32, f64, any_cx64, single);
