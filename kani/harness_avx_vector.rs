// ---- AVX memory accessors (src/avx/avx_vector.rs): complete per accessor (C03) ---------------------------------------------------
// The Verus units avx_mixed_radix_* / avx_bluesteins / avx_raders take each `AvxArray[Mut]` accessor with the precondition of its
// own `debug_assert!` (index + k <= len).  Here every accessor is run on a buffer of EXACTLY k elements (index 0) and on the last
// k elements of a longer buffer: CBMC's pointer checks show that it dereferences nothing outside `[index, index + k)`, for all
// element bit patterns (loop-free: complete).  Only loads/stores/shuffles are reached; no FMA, no CPU detection.
use super::*;
fn any32() -> Complex<f32> { Complex { re: kani::any(), im: kani::any() } }
fn any64() -> Complex<f64> { Complex { re: kani::any(), im: kani::any() } }

macro_rules! avx_load_harness {
    ($name:ident, $ty:ty, $any:ident, $k:expr, $method:ident) => {
        #[kani::proof]
        fn $name() {
            // exactly k elements
            let a: [Complex<$ty>; $k] = [$any(); $k];
            let s: &[Complex<$ty>] = &a;
            let v = unsafe { s.$method(0) };
            core::hint::black_box(v);
            // the last k elements of a longer buffer
            let b: [Complex<$ty>; $k + 3] = [$any(); $k + 3];
            let t: &[Complex<$ty>] = &b;
            let w = unsafe { t.$method(3) };
            core::hint::black_box(w);
            kani::cover!(true, "end of harness reachable");
        }
    };
}
macro_rules! avx_store_harness {
    ($name:ident, $ty:ty, $any:ident, $k:expr, $load:ident, $store:ident, $src:expr) => {
        #[kani::proof]
        fn $name() {
            let src: [Complex<$ty>; $src] = [$any(); $src];
            let s: &[Complex<$ty>] = &src;
            let v = unsafe { s.$load(0) };
            let mut a: [Complex<$ty>; $k] = [$any(); $k];
            { let mut d: &mut [Complex<$ty>] = &mut a; unsafe { d.$store(v, 0) }; }
            let mut b: [Complex<$ty>; $k + 3] = [$any(); $k + 3];
            let guard = b[2];
            { let mut d: &mut [Complex<$ty>] = &mut b; unsafe { d.$store(v, 3) }; }
            assert!(b[2].re.to_bits() == guard.re.to_bits() && b[2].im.to_bits() == guard.im.to_bits());
            kani::cover!(true, "end of harness reachable");
        }
    };
}
avx_load_harness!(avx_f32_load_complex, f32, any32, 4, load_complex);
avx_load_harness!(avx_f32_load_partial1, f32, any32, 1, load_partial1_complex);
avx_load_harness!(avx_f32_load_partial2, f32, any32, 2, load_partial2_complex);
avx_load_harness!(avx_f32_load_partial3, f32, any32, 3, load_partial3_complex);
avx_load_harness!(avx_f64_load_complex, f64, any64, 2, load_complex);
avx_load_harness!(avx_f64_load_partial1, f64, any64, 1, load_partial1_complex);
avx_store_harness!(avx_f32_store_complex, f32, any32, 4, load_complex, store_complex, 4);
avx_store_harness!(avx_f32_store_partial1, f32, any32, 1, load_partial1_complex, store_partial1_complex, 1);
avx_store_harness!(avx_f32_store_partial2, f32, any32, 2, load_partial2_complex, store_partial2_complex, 2);
avx_store_harness!(avx_f32_store_partial3, f32, any32, 3, load_partial3_complex, store_partial3_complex, 3);
avx_store_harness!(avx_f64_store_complex, f64, any64, 2, load_complex, store_complex, 2);
avx_store_harness!(avx_f64_store_partial1, f64, any64, 1, load_partial1_complex, store_partial1_complex, 1);
