"""Kani engine: runs the complete (loop-free, full-domain) harnesses of kani/harness.rs inside the real crate."""
import os
import re
import subprocess
import time

ROOT = os.path.dirname(os.path.dirname(os.path.abspath(__file__)))

HARNESSES = [
    # name, properties, tier, kind
    ('rotate90_f32_complete', ['C01', 'C06'], 'thorough', 'complete'),
    ('rotate90_f64_complete', ['C01', 'C06'], 'thorough', 'complete'),
    ('opposite_direction_complete', ['C06'], 'thorough', 'complete'),
]


def run_for(prop, tier, repo, build):
    items = [h for h in HARNESSES if prop in h[1] and (tier == 'thorough' or h[2] == 'quick')]
    res = []
    if not items:
        return res
    env = dict(os.environ, CARGO_NET_OFFLINE='true', EJMAHLER_RUSTFFT_VERIF_DIR=ROOT,
               RUSTFLAGS='--cfg ejmahler_rustfft_verif')
    tgt = os.path.join(build, 'kani-target')
    for name, props, t, kind in items:
        t0 = time.time()
        cmd = ['cargo', 'kani', '--no-default-features', '--target-dir', tgt, '--harness', name]
        try:
            p = subprocess.run(cmd, cwd=repo, env=env, capture_output=True, text=True, timeout=900)
            out = p.stdout + p.stderr
        except subprocess.TimeoutExpired:
            res.append({'harness': name, 'kind': kind, 'status': 'inconclusive', 'reason': 'timeout', 'wall_s': time.time() - t0, 'obligations': 1, 'discharged': 0})
            continue
        r = {'harness': name, 'kind': kind, 'wall_s': round(time.time() - t0, 1), 'obligations': 1, 'cmd': ' '.join(cmd),
             'assumptions': ['Kani/CBMC bit-precise float model; harness ' + name + ' is loop-free over all bit patterns (complete)']}
        if 'VERIFICATION:- SUCCESSFUL' in out:
            r.update(status='ok', discharged=1)
        elif 'VERIFICATION:- FAILED' in out:
            failed = re.findall(r'Failed Checks: (.*)', out)
            r.update(status='fail', discharged=0)
            r['failures'] = [{'obligation': 'kn:' + name, 'function': name, 'message': 'Kani harness failed: ' + '; '.join(failed[:3]),
                              'where': [], 'rendered': '\n'.join([l for l in out.split('\n') if 'Failed Checks' in l or 'VERIFICATION' in l][:10]), 'tags': []}]
        else:
            r.update(status='inconclusive', discharged=0, reason=out[-600:])
        res.append(r)
    return res
