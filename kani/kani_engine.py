"""Kani engine: runs the complete (loop-free / constant-loop, full-domain) harnesses of kani/harness.rs inside the real crate.
Harnesses are grouped by flag set; each group is one `cargo kani -j N --output-format=terse` invocation."""
import os
import re
import subprocess
import time

ROOT = os.path.dirname(os.path.dirname(os.path.abspath(__file__)))

KERNELS = [2, 3, 4, 5, 6, 7, 8, 9, 11, 12, 13, 16, 17, 19, 23, 24, 27, 29, 31, 32]
HARNESSES = [
    # name, properties, tier, kind, flag group
    ('rotate90_f32_complete', ['C01', 'C06'], 'thorough', 'complete', 'default'),
    ('rotate90_f64_complete', ['C01', 'C06'], 'thorough', 'complete', 'default'),
    ('opposite_direction_complete', ['C06'], 'thorough', 'complete', 'default'),
]
for k in KERNELS:
    for t in ('f32', 'f64'):
        HARNESSES.append(('butterfly%d_kernel_%s' % (k, t), ['C03', 'C09', 'C15'], 'thorough', 'complete', 'nofloatchecks'))

SSE_MAIN = [1, 2, 3, 4, 5, 6, 8, 9, 10, 12, 15, 16, 24, 32]
SSE_PRIME = [7, 11, 13, 17, 19, 23, 29, 31]
for k in sorted(SSE_MAIN + SSE_PRIME):
    HARNESSES.append(('sse_f32_butterfly%d_single' % k, ['C03', 'C09', 'C15'], 'thorough', 'complete', 'sse'))
    # the two-chunk harnesses of the two largest prime butterflies are defined (kani/harness_sse_prime.rs) but NOT run: kani-driver
    # needs more than the 62 GB of this machine for them (OOM-killed three times on 2026-09-24). Their memory-touching function
    # (`perform_parallel_fft_contiguous`) is under contract in the Verus unit simd_kernels_sse; the rest is register arithmetic.
    if k != 16 and k not in (29, 31):
        HARNESSES.append(('sse_f32_butterfly%d_parallel' % k, ['C03', 'C07', 'C09', 'C15'], 'thorough', 'complete', 'sse'))
    HARNESSES.append(('sse_f64_butterfly%d_single' % k, ['C03', 'C09', 'C15'], 'thorough', 'complete', 'sse'))

AVX_ACCESSORS = ['avx_f32_load_complex', 'avx_f32_load_partial1', 'avx_f32_load_partial2', 'avx_f32_load_partial3', 'avx_f64_load_complex', 'avx_f64_load_partial1',
                 'avx_f32_store_complex', 'avx_f32_store_partial1', 'avx_f32_store_partial2', 'avx_f32_store_partial3', 'avx_f64_store_complex', 'avx_f64_store_partial1']
for h in AVX_ACCESSORS:
    # small loop-free harnesses (seconds): run in the quick tier; they discharge the accessor contracts the Verus AVX units assume
    HARNESSES.append((h, ['C03'], 'quick', 'complete', 'avxvec'))

SSE_ACCESSORS = ['sse_f32_load_complex', 'sse_f32_load_partial_lo', 'sse_f32_load1', 'sse_f64_load_complex', 'sse_f32_store_complex', 'sse_f32_store_partial_lo', 'sse_f64_store_complex']
for h in SSE_ACCESSORS:
    HARNESSES.append((h, ['C03'], 'quick', 'complete', 'ssevec'))

ARRAY_UTILS = ['array_utils_transmute_identity', 'array_utils_loadstore_slice', 'array_utils_loadstore_array']
for h in ARRAY_UTILS:
    # discharge the declared rewrites R17 / R2b of the Verus extraction (seconds; quick tier)
    HARNESSES.append((h, ['C03', 'C15'], 'quick', 'complete', 'arrayutils'))

GROUP_FLAGS = {
    'arrayutils': [],
    'avxvec': ['--features', 'avx'],
    'ssevec': ['--features', 'sse'],
    'sse': ['--features', 'sse', '--no-overflow-checks', '-Z', 'stubbing'],
    'default': [],
    # CBMC's float NaN/overflow checks are not properties of RustFFT (every input may be NaN or infinite); MIR-level integer
    # overflow assertions, bounds checks, debug assertions and all pointer/memory-safety checks stay on.
    'nofloatchecks': ['--no-overflow-checks'],
}
SPURIOUS = {}  # none: the float SIMD arithmetic intrinsics are stubbed lane-wise (kani/sse_macros.rs), so no check is ignored
GROUP_TARGET = {'arrayutils': 'kani-target-au', 'sse': 'kani-target-sse', 'avxvec': 'kani-target-avx', 'ssevec': 'kani-target-ssevec'}
# parallel CBMC jobs per group: the large f64 scalar kernels need ~20 GB each
GROUP_JOBS = {'arrayutils': 3, 'default': 3, 'nofloatchecks': 2, 'sse': 3, 'avxvec': 6, 'ssevec': 6}
ASSUME = {
    'arrayutils': 'Kani/CBMC; all element bit patterns, every slice length up to the backing array and every in-range index (the unwinding bound 6 covers the constant check loops; unwinding assertions on): workaround_transmute[_mut] returns the same pointer and length; LoadStore::load/store on a slice / array touch exactly element idx',
    'ssevec': 'Kani/CBMC on the SSE load/store intrinsics as implemented in stdarch; all element bit patterns; loop-free (complete for this accessor): each SseArray[Mut] accessor, called as its debug_assert allows, dereferences nothing outside [index, index + k) and leaves both neighbours of the stored range bit-identical',
    'avxvec': 'Kani/CBMC on the AVX load/store intrinsics as implemented in stdarch (copy_nonoverlapping / simd_shuffle / pointer reads and writes); all element bit patterns; loop-free (complete for this accessor): each AvxArray[Mut] accessor, called as its debug_assert allows (index + k <= len, exercised with len == k and with the last k elements of a longer buffer), dereferences nothing outside [index, index + k)',
    'sse': 'Kani/CBMC on the SSE intrinsics as lowered to generic simd_* operations; all element bit patterns and both directions, constant loops fully unwound (complete for this kernel); float NaN/overflow checks off; the eight float arithmetic intrinsics (_mm_add/sub/mul/addsub_ps/pd) are stubbed lane-wise because the assert-and-assume "no overflow" on float simd_add/sub/mul would make all later code unreachable (vacuity found by a mutation test); is_x86_feature_detected is not reached (kernels are called directly, as the verified helpers call them)',
    'default': 'Kani/CBMC bit-precise float model; loop-free over all bit patterns (complete)',
    'nofloatchecks': 'Kani/CBMC; all element bit patterns and both directions, constant loops fully unwound with unwinding assertions (complete for this kernel and element type); CBMC float NaN/overflow checks off (not a property); sin/cos in compute_twiddle over-approximated (values irrelevant to memory safety)',
}


def parse(out):
    """-> {harness: (ok: bool, failed_checks: [str])}"""
    cur = {}
    res = {}
    th = None
    for ln in out.split('\n'):
        m = re.match(r'Thread (\d+): Checking harness (?:\S+::)?(\w+)\.\.\.', ln)
        if m:
            cur[m.group(1)] = m.group(2)
            continue
        m = re.match(r'Checking harness (?:\S+::)?(\w+)\.\.\.', ln)
        if m:
            cur['0'] = m.group(1)
            th = '0'
            continue
        m = re.match(r'Thread (\d+):\s*$', ln)
        if m:
            th = m.group(1)
            continue
        if th is None or th not in cur:
            continue
        h = cur[th]
        mc = re.search(r'(\d+) of (\d+) cover properties satisfied', ln)
        if mc:
            res.setdefault(h, [None, [], None])[2] = (int(mc.group(1)), int(mc.group(2)))
        elif ln.startswith('Failed Checks:'):
            res.setdefault(h, [None, [], None])[1].append(ln[len('Failed Checks:'):].strip())
        elif 'VERIFICATION:- SUCCESSFUL' in ln:
            res.setdefault(h, [None, [], None])[0] = True
        elif 'VERIFICATION:- FAILED' in ln:
            res.setdefault(h, [None, [], None])[0] = False
    return res


def tree_hash(repo):
    """content hash of everything a harness result depends on: the crate sources/manifest of the CURRENT working tree and the
    harness files.  Results are memoized on disk under this key only, so any edit anywhere in src/ re-runs every harness."""
    import hashlib
    h = hashlib.sha256()
    files = []
    for base, sub in ((repo, 'src'), (ROOT, 'kani')):
        for dp, dn, fn in os.walk(os.path.join(base, sub)):
            for f in fn:
                if f.endswith('.rs'):
                    files.append(os.path.join(dp, f))
    files += [os.path.join(repo, 'Cargo.toml'), os.path.join(repo, 'Cargo.lock')]
    h.update(repr(sorted(GROUP_FLAGS.items())).encode())
    for f in sorted(files):
        try:
            h.update(f.encode() + b'\0' + open(f, 'rb').read() + b'\0')
        except OSError:
            pass
    return h.hexdigest()


def run_for(prop, tier, repo, build):
    import json
    key = tree_hash(repo)
    cdir = os.path.join(build, 'kani-cache')
    os.makedirs(cdir, exist_ok=True)
    cfile = os.path.join(cdir, key + '.json')
    cache = {}
    if os.environ.get('VERIF_KANI_NOCACHE') != '1' and os.path.exists(cfile):
        try:
            cache = json.load(open(cfile))
        except Exception:
            cache = {}
    res = _run_for(prop, tier, repo, build, cache)
    for r in res:
        if r.get('status') in ('ok', 'fail') and not r.get('memoized'):
            cache[r['harness']] = r
    json.dump(cache, open(cfile, 'w'))
    return res


def _run_for(prop, tier, repo, build, cache):
    items = [h for h in HARNESSES if prop in h[1] and (tier == 'thorough' or h[2] == 'quick')]
    res = []
    if not items:
        return res
    env = dict(os.environ, CARGO_NET_OFFLINE='true', EJMAHLER_RUSTFFT_VERIF_DIR=ROOT,
               RUSTFLAGS='--cfg ejmahler_rustfft_verif')
    for h in items:
        if h[0] in cache:
            r = dict(cache[h[0]])
            r['memoized'] = 'result of an earlier run on a byte-identical source tree (key = sha256 of /repo/src, Cargo.toml, Cargo.lock, kani/)'
            res.append(r)
    items = [h for h in items if h[0] not in cache]
    for grp in sorted(set(h[4] for h in items)):
        g_all = [h for h in items if h[4] == grp]
        tgt = os.path.join(build, GROUP_TARGET.get(grp, 'kani-target'))
        base = ['cargo', 'kani', '--no-default-features', '--target-dir', tgt]
        # batches: one crashed CBMC process takes down the whole `cargo kani -j` invocation (driver panic "No exit code?"),
        # so harnesses are run in batches and any harness left without a result is re-run on its own
        batches = [g_all[i:i + 10] for i in range(0, len(g_all), 10)]
        for g in batches:
            t0 = time.time()
            cmd = base + ['-j', str(GROUP_JOBS.get(grp, 2)), '--output-format=terse'] + GROUP_FLAGS[grp]
            for h in g:
                cmd += ['--harness', h[0]]
            out = ''
            try:
                p = subprocess.run(cmd, cwd=repo, env=env, capture_output=True, text=True, timeout=3 * 3600)
                out = p.stdout + p.stderr
            except subprocess.TimeoutExpired:
                out = 'timeout'
            wall = round(time.time() - t0, 1)
            parsed = parse(out)
            shown = ' '.join(cmd[:9]) + ' ' + ' '.join(GROUP_FLAGS[grp]) + ' --harness <%d harnesses of group %s>' % (len(g), grp)
            for h in g:
                name = h[0]
                w = round(wall / max(1, len(g)), 1)
                if parsed.get(name, (None, [], None))[0] is None:
                    t1 = time.time()
                    cmd1 = base + GROUP_FLAGS[grp] + ['--harness', name]
                    try:
                        p1 = subprocess.run(cmd1, cwd=repo, env=env, capture_output=True, text=True, timeout=3600)
                        out1 = p1.stdout + p1.stderr
                    except subprocess.TimeoutExpired:
                        out1 = 'timeout'
                    parsed1 = parse('Checking harness %s...\n' % name + out1)
                    parsed[name] = parsed1.get(name, [None, [], None])
                    if parsed[name][0] is None:
                        parsed[name] = [None, [], None, out1[-400:]]
                    w = round(time.time() - t1, 1)
                res.append(result_of(h, grp, parsed.get(name), w, shown))
    return res


def result_of(h, grp, pr, wall, shown):
    name, props, t, kind, _ = h
    r = {'harness': name, 'kind': kind, 'wall_s': wall, 'obligations': 1, 'cmd': shown, 'assumptions': [ASSUME[grp]]}
    ok, failed, cover = (pr[0], pr[1], pr[2]) if pr else (None, [], None)
    needs_cover = grp in ('nofloatchecks', 'sse', 'avxvec', 'ssevec')
    if ok is True and needs_cover and (cover is None or cover[0] != cover[1] or cover[1] == 0):
        r.update(status='inconclusive', discharged=0, reason='VACUITY: the end of the harness is not reachable (cover %s)' % (cover,))
    elif ok is True:
        r.update(status='ok', discharged=1)
        if cover:
            r['cover'] = '%d of %d reachability covers satisfied' % cover
    elif ok is False:
        r.update(status='fail', discharged=0)
        r['failures'] = [{'obligation': 'kn:' + name, 'function': name, 'message': 'Kani harness failed: ' + '; '.join(failed[:3]),
                          'where': [], 'rendered': 'harness %s\n' % name + '\n'.join('Failed Checks: ' + f for f in failed[:10]), 'tags': []}]
    else:
        r.update(status='inconclusive', discharged=0, reason='no result for this harness: ' + (pr[3] if pr and len(pr) > 3 else ''))
    return r
