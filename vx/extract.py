#!/usr/bin/env python3
"""Extractor: builds one self-contained Verus file per unit from a template (.vx) and the
*current* sources under /repo.  See DESIGN.md section 2.1.

Template directives (lines starting with `//@`):

  //@ unit NAME                 unit header
  //@ modes S P                 modes this unit is generated in
  //@ props C07 C09             properties served
  //@ if S|P / else / endif     conditional text
  //@ include FILE              include another template (relative to vx/)
  (fn sub-directive) //@ loopall   loop annotation inserted into every loop of the function that has no `//@ loop K` of its own
  //@ fn FILE PATH [k=v ...]    extract function PATH (name | Type::name | Trait for Type::name)
  //@ item KIND FILE NAME       extract struct/enum/const/trait verbatim
  //@ macrofn FILE MACRO FN [use=FILE2 inst=StructName] [k=v ...]
                                extract fn FN from macro_rules! MACRO, instantiating the macro
                                parameters from the invocation `MACRO!(StructName, ...)` in FILE2
  sub-directives of fn/macrofn (each followed by text lines until the next //@):
  //@   generic PARAM TYVAR     R1: `PARAM: impl Trait` -> named generic
  //@   ret NAME                name the return value: `-> T` becomes `-> (NAME: T)`
  //@   spec                    requires/ensures/decreases text, spliced before the body
  //@   loop K                  invariant/decreases text for the K-th loop (textual order)
  //@   start                   text inserted at the beginning of the body
  //@   before N REGEX          text inserted before the N-th statement whose start matches REGEX
  //@   after N REGEX           text inserted after that statement
  //@   sub REGEX => TEXT       declared local rewrite (logged, counted)
  //@   external                R9: keep signature+spec, replace body (external_body)
  //@ end
"""
import os
import re
import sys
import json

sys.path.insert(0, os.path.dirname(os.path.abspath(__file__)))
import rsscan  # noqa: E402

VX_DIR = os.path.dirname(os.path.abspath(__file__))
REPO = os.environ.get('VERIF_REPO', '/repo')


class Inconclusive(Exception):
    """Lost anchor / unsupported construct: never a violation (exit 2)."""


# --------------------------------------------------------------------------------------------
# rewrite rules on extracted code.  Each returns (new_text, applications:int).  All rules
# preserve the number of newlines so that line origins stay exact.
# --------------------------------------------------------------------------------------------

def _pad_newlines(old, new):
    d = old.count('\n') - new.count('\n')
    if d < 0:
        # should not happen; rules only shrink
        raise Inconclusive('rewrite grew line count')
    return new + '\n' * d


def split_top_commas(m, a, b, closure_params=False):
    """split masked text m[a:b] at top-level commas; returns list of (start,end).
    closure_params: commas between the two `|` of a closure parameter list (`|this: &X<_, _>| ...`) do not split."""
    parts, depth, s = [], 0, a
    i = a
    inpipe = False
    while i < b:
        c = m[i]
        if c in '([{':
            depth += 1
        elif c in ')]}':
            depth -= 1
        elif c == '|' and depth == 0 and closure_params:
            inpipe = not inpipe
        elif c == ',' and depth == 0 and not inpipe:
            parts.append((s, i))
            s = i + 1
        i += 1
    if m[s:b].strip():
        parts.append((s, b))
    return parts


def rule_R5_strip(text):
    """drop doc comments, attributes that carry no semantics, pub(crate)->pub."""
    n = 0
    out = []
    for ln in text.split('\n'):
        s = ln.strip()
        if s.startswith('///') or s.startswith('//!'):
            out.append('')
            n += 1
            continue
        if re.fullmatch(r'#\[(inline(\([a-z]+\))?|cold|allow\([^\]]*\)|target_feature\([^\]]*\)|must_use|doc\([^\]]*\)|rustfmt::skip)\]', s):
            out.append('')
            n += 1
            continue
        out.append(ln)
    text = '\n'.join(out)
    text, k = re.subn(r'\bpub\s*\(\s*(crate|super)\s*\)', 'pub', text)
    # legacy constant paths (`std::u32::MAX`) -> associated constants (`u32::MAX`): same values
    text, k2 = re.subn(r'\b(?:std|core)::(u8|u16|u32|u64|u128|usize|i8|i16|i32|i64|i128|isize)::(MAX|MIN)\b', r'\1::\2', text)
    return text, n + k + k2


def _receiver_start(m, dot):
    """walk back from '.' over a simple receiver expression: idents, `.`, `self`, `[...]`, `(...)` suffixes."""
    i = dot
    while i > 0 and m[i - 1].isspace():     # rustfmt puts `.method(` of a long receiver on its own line
        i -= 1
    while i > 0:
        c = m[i - 1]
        if c.isalnum() or c == '_' or c == '.':
            i -= 1
            if c == '.':
                while i > 0 and m[i - 1].isspace():
                    i -= 1
        elif c in ')]':
            # find matching opener backwards
            depth, j = 0, i - 1
            while j >= 0:
                if m[j] in ')]':
                    depth += 1
                elif m[j] in '([':
                    depth -= 1
                    if depth == 0:
                        break
                j -= 1
            i = j
        else:
            break
    return i


def rule_R2_unchecked(text):
    n = 0
    while True:
        m = rsscan.mask(text)
        mt = re.search(r'\.\s*get_unchecked(_mut)?\s*\(', m)
        if not mt:
            break
        dot = mt.start()
        op = mt.end() - 1
        cl = rsscan.match_close(m, op)
        rs = _receiver_start(m, dot)
        recv = text[rs:dot].strip()
        arg = text[op + 1:cl]
        # preceded by deref?
        j = rs - 1
        while j >= 0 and m[j] in ' \t':
            j -= 1
        if j >= 0 and m[j] == '*':
            new = '%s[%s]' % (recv, arg)
            a = j
        else:
            new = ('&mut %s[%s]' if mt.group(1) else '&%s[%s]') % (recv, arg)
            a = rs
        old = text[a:cl + 1]
        text = text[:a] + _pad_newlines(old, new) + text[cl + 1:]
        n += 1
    return text, n


def rule_R34_asserts(text):
    """assert!/assert_eq!/assert_ne!/debug_assert* -> verif_assert(cond); panic!/unreachable!/unimplemented! -> verif_panic();
    `.unwrap()` / `.expect(..)` -> `.verif_unwrap()` is NOT done here (vstd's Option::unwrap carries the obligation in mode S)."""
    n = 0
    while True:
        m = rsscan.mask(text)
        mt = re.search(r'\b(debug_assert_eq|debug_assert_ne|debug_assert|assert_eq|assert_ne|assert|panic|unreachable|unimplemented)\s*!\s*\(', m)
        if not mt:
            break
        kind = mt.group(1)
        op = mt.end() - 1
        cl = rsscan.match_close(m, op)
        parts = split_top_commas(m, op + 1, cl)
        if kind in ('panic', 'unreachable', 'unimplemented'):
            new = 'verif_panic()'
        elif kind.startswith('debug_'):
            # debug assertions are not part of release semantics; they are kept as obligations in mode S only
            if kind == 'debug_assert':
                new = 'verif_debug_assert(%s)' % text[parts[0][0]:parts[0][1]].strip()
            else:
                opx = '==' if kind.endswith('eq') else '!='
                new = 'verif_debug_assert((%s) %s (%s))' % (text[parts[0][0]:parts[0][1]].strip(), opx, text[parts[1][0]:parts[1][1]].strip())
        elif kind == 'assert':
            if not parts:
                raise Inconclusive('assert! without condition')
            new = 'verif_assert(%s)' % text[parts[0][0]:parts[0][1]].strip()
        else:
            if len(parts) < 2:
                raise Inconclusive('%s! with <2 args' % kind)
            opx = '==' if kind == 'assert_eq' else '!='
            new = 'verif_assert((%s) %s (%s))' % (text[parts[0][0]:parts[0][1]].strip(), opx, text[parts[1][0]:parts[1][1]].strip())
        old = text[mt.start():cl + 1]
        # keep line count
        newflat = ' '.join(new.split('\n')) if new.count('\n') > old.count('\n') else new
        text = text[:mt.start()] + _pad_newlines(old, newflat) + text[cl + 1:]
        n += 1
    return text, n


def rule_R6_minmax(text):
    text, a = re.subn(r'\b(?:std|core)::cmp::max\b', 'verif_max', text)
    text, b = re.subn(r'\b(?:std|core)::cmp::min\b', 'verif_min', text)
    return text, a + b



_UNSAFE_IN_SHAPE_BODY = re.compile(r'\[|\bunwrap\b|\bexpect\s*\(|\bassert|\bpanic\b|\breturn\b|\bbreak\b|\?')


def rule_R8_R11_shape(text):
    """R8/R11 (shape units only): element-wise zip loops and table-fill loops become calls of assumed, length-preserving
    primitives; `vec![Complex::zero(); n]` becomes verif_new_table(n).  Declared drop: element values."""
    n = 0
    while True:
        m = rsscan.mask(text)
        hit = None
        for mt in re.finditer(r'\bfor\s+(\(\s*\(\s*&?\w+\s*,\s*&?\w+\s*\)\s*,\s*&?\w+\s*\)|\(\s*&?\w+\s*,\s*&?\w+\s*\)|\w+)\s+in\s+', m):
            if not rsscan.is_stmt_start(m, mt.start(), 0):
                continue
            bo = rsscan.find_body_open(m, mt.end())
            if bo < 0:
                continue
            pat = ''.join(mt.group(1).split())
            hdr = ' '.join(text[mt.end():bo].split())
            bc = rsscan.match_close(m, bo)
            body = m[bo + 1:bc]
            nbody = ' '.join(text[bo + 1:bc].split())
            new = None
            names = re.findall(r'&?\w+', pat)
            if len(names) == 2:
                a_, b_ = names
                z = re.fullmatch(r'(.+?)\.iter_mut\(\)\.zip\((.+?)\.iter\(\)\)', hdr)
                if z and b_.startswith('&'):
                    g = re.fullmatch(r'\*%s = (\w+)\[%s\];' % (re.escape(a_), re.escape(b_[1:])), nbody)
                    if g:
                        new = 'verif_gather(%s, %s, %s);' % (z.group(1), g.group(1), z.group(2))
                if z and new is None:
                    new = 'verif_elementwise(%s, &%s);' % (z.group(1), z.group(2))
                z = re.fullmatch(r'(.+?)\.iter\(\)\.zip\((.+?)\.iter\(\)\)', hdr)
                if z and new is None and b_.startswith('&'):
                    g = re.fullmatch(r'(\w+)\[%s\] = \*%s;' % (re.escape(b_[1:]), re.escape(a_)), nbody)
                    if not g:
                        raise Inconclusive('R8 scatter: unexpected loop body %r' % nbody)
                    new = 'verif_scatter(%s, %s, %s);' % (g.group(1), z.group(1), z.group(2))
                    hit = (mt.start(), bc + 1, new)
                    break
                z = re.fullmatch(r'(.+?)\.chunks_exact_mut\((.+?)\)\.enumerate\(\)', hdr)
                if z and new is None:
                    new = 'verif_fill_chunks(&mut %s, %s);' % (z.group(1), z.group(2))
                z = re.fullmatch(r'(.+?)\.iter_mut\(\)\.enumerate\(\)', hdr)
                if z and new is None:
                    new = 'verif_fill(&mut %s);' % z.group(1)
            elif len(names) == 3:
                # ((a, b), c) in X.iter[_mut]().zip(Y.iter[_mut]()).zip(Z.iter()): exactly one of X, Y is iterated mutably
                z = re.fullmatch(r'(.+?)\.(iter|iter_mut)\(\)\s*\.zip\((.+?)\.(iter|iter_mut)\(\)\)\s*\.zip\((.+?)\.iter\(\)\)', hdr)
                if z and (z.group(2) == 'iter_mut') != (z.group(4) == 'iter_mut'):
                    dst, src = (z.group(1), z.group(3)) if z.group(2) == 'iter_mut' else (z.group(3), z.group(1))
                    new = 'verif_elementwise3(%s, &%s, &%s);' % (dst, src, z.group(5))
            else:
                v = names[0]
                zero_body = re.fullmatch(r'\*%s = Complex::zero\(\);' % re.escape(v), nbody)
                z = re.fullmatch(r'\(&mut (.+?)\)\.iter_mut\(\)', hdr)
                if z and zero_body:
                    new = 'verif_fill_zero(&mut %s);' % z.group(1)
                z = re.fullmatch(r'(.+?)\.iter_mut\(\)\.skip\((.+?)\)', hdr)
                if z and zero_body and new is None:
                    new = 'verif_fill_zero_from(%s, %s);' % (z.group(1), z.group(2))
            if new is None:
                continue
            # nested fill loops are part of the same abstraction; the innermost bodies must be index/panic free
            if _UNSAFE_IN_SHAPE_BODY.search(re.sub(r'\bfor\s*\([^)]*\)\s+in\s+[^{]*\{', ' ', body)) and not new.startswith(('verif_gather', 'verif_scatter')):
                raise Inconclusive('R8/R11: loop body is not a pure element-wise update: %r' % hdr)
            hit = (mt.start(), bc + 1, new)
            break
        if not hit:
            break
        a, b, new = hit
        text = text[:a] + _pad_newlines(text[a:b], new) + text[b:]
        n += 1
    text, k = re.subn(r'vec!\[\s*(?:Complex|Zero)::zero\(\)\s*;\s*([^\]]+?)\s*\]', r'verif_new_table(\1)', text)
    return text, n + k


def rule_R13_desugar(text, R13_SLICE_VARS=()):
    """R13 (opt-in, `//@ desugar`): `for (I, E) in X.iter_mut().enumerate() { B }` and `for E in X.iter_mut() { B }` (shared: `for E in X.iter() { B }`) become the
    index loop they abbreviate: `let mut verif_k = 0; while verif_k < X.len() { let I = verif_k; let E = &mut X[verif_k]; B verif_k += 1; }`.
    Element values are kept (unlike R8/R11).  The loop keeps its ordinal; the expansion stays on the header line."""
    n = 0
    while True:
        m = rsscan.mask(text)
        hit = None
        for mt in re.finditer(r'\bfor\s+(\(\s*\w+\s*,\s*\w+\s*\)|\w+)\s+in\s+', m):
            if not rsscan.is_stmt_start(m, mt.start(), 0):
                continue
            bo = rsscan.find_body_open(m, mt.end())
            if bo < 0:
                continue
            hdr = ' '.join(text[mt.end():bo].split())
            names = re.findall(r'\w+', mt.group(1))
            z = re.fullmatch(r'(.+?)\.iter_mut\(\)\.enumerate\(\)', hdr)
            if z and len(names) == 2:
                hit = (mt.start(), bo, z.group(1), names[0], names[1])
                break
            z = re.fullmatch(r'([\w.]+)\.iter\(\)\.enumerate\(\)', hdr)
            if z and len(names) == 2:
                hit = (mt.start(), bo, z.group(1), names[0], names[1], 'shared')
                break
            z = re.fullmatch(r'(.+?)\.iter_mut\(\)', hdr) or re.fullmatch(r'&mut (\w+)', hdr)
            if z and len(names) == 1:
                hit = (mt.start(), bo, z.group(1), None, names[0])
                break
            # `for e in slice_var` (by-value iteration of a `&mut [T]` / `&[T]` binding): the elements are only read in the bodies
            # this rule is applied to; a body that assigns through `e` no longer type-checks (-> INCONCLUSIVE)
            z = re.fullmatch(r'([\w.]+)\.iter\(\)', hdr)
            if z and len(names) == 1:
                hit = (mt.start(), bo, z.group(1), None, names[0], 'shared')
                break
            z = re.fullmatch(r'(\w+)', hdr)
            if z and len(names) == 1 and z.group(1) in R13_SLICE_VARS:
                hit = (mt.start(), bo, z.group(1), None, names[0], 'shared')
                break
            # `for e in X` consuming a Vec of Copy elements (declared `//@ desugar *X`): `let e = X[k];`
            z = re.fullmatch(r'([\w.]+)', hdr)
            if z and len(names) == 1 and ('*' + z.group(1)) in R13_SLICE_VARS:
                hit = (mt.start(), bo, z.group(1), None, names[0], 'copy')
                break
        if not hit:
            break
        shared = len(hit) > 5
        bycopy = len(hit) > 5 and hit[5] == 'copy'
        a, bo, x, iv, ev = hit[:5]
        bc = rsscan.match_close(m, bo)
        k = 'verif_k%d' % n
        head = 'let mut %s: usize = 0; while %s < %s.len() /*@R13 %s.len() - %s @*/ ' % (k, k, x, x, k)
        first = '{ ' + (('let %s = %s; ' % (iv, k)) if iv else '') + ('let %s = %s[%s]; ' if bycopy else ('let %s = &%s[%s]; ' if shared else 'let %s = &mut %s[%s]; ')) % (ev, x, k)
        body = text[bo + 1:bc]
        old = text[a:bc + 1]
        new = head + '\n' * text[a:bo].count('\n') + first + body + ' %s += 1; }' % k
        if new.count('\n') != old.count('\n'):
            raise Inconclusive('R13 changed the line count')
        text = text[:a] + new + text[bc + 1:]
        n += 1
    return text, n


def rule_R2b_loadstore(text, names):
    """R2b (opt-in, `//@ loadstore a b`): `X.load(I)` -> `X[I]`, `X.store(V, I)` -> `X[I] = V` for the named parameters, and their
    `impl LoadStore<T>` / `impl Load<T>` types -> `&mut [Complex<T>]` / `&[Complex<T>]`.  LoadStore for slices *is*
    get_unchecked (src/array_utils.rs:38-49), so as with R2 the unchecked bound becomes the proof obligation."""
    n = 0
    for nm in names:
        text, k = re.subn(r'\b(mut\s+)?%s\s*:\s*impl\s+LoadStore<T>' % nm, '%s: &mut [Complex<T>]' % nm, text)
        n += k
        text, k = re.subn(r'\b%s\s*:\s*impl\s+Load<T>' % nm, '%s: &[Complex<T>]' % nm, text)
        n += k
        while True:
            m = rsscan.mask(text)
            mt = re.search(r'\b%s\.(load|store)\s*\(' % nm, m)
            if not mt:
                break
            op = mt.end() - 1
            cl = rsscan.match_close(m, op)
            parts = split_top_commas(m, op + 1, cl)
            old = text[mt.start():cl + 1]
            if mt.group(1) == 'load':
                new = '%s[%s]' % (nm, text[parts[0][0]:parts[0][1]].strip())
            else:
                new = '%s[%s] = %s' % (nm, text[parts[1][0]:parts[1][1]].strip(), text[parts[0][0]:parts[0][1]].strip())
            text = text[:mt.start()] + _pad_newlines(old, new) + text[cl + 1:]
            n += 1
    return text, n


def rule_R13b_chunks(text):
    """R13b (with `//@ desugar`): `for D in X.chunks_exact_mut(N) { B }` -> `let mut k = 0; while k + N <= X.len() { let D = &mut X[k..k + N]; B k += N; }`
    (chunks_exact_mut panics for N == 0: kept as `verif_assert(N != 0)`)."""
    n = 0
    while True:
        m = rsscan.mask(text)
        hit = None
        for mt in re.finditer(r'\bfor\s+(\w+)\s+in\s+', m):
            if not rsscan.is_stmt_start(m, mt.start(), 0):
                continue
            bo = rsscan.find_body_open(m, mt.end())
            if bo < 0:
                continue
            hdr = ' '.join(text[mt.end():bo].split())
            z = re.fullmatch(r'(.+?)\.chunks_exact_mut\((.+?)\)', hdr)
            if z:
                hit = (mt.start(), bo, z.group(1), z.group(2), mt.group(1))
                break
        if not hit:
            break
        a, bo, x, cn, dv = hit
        bc = rsscan.match_close(m, bo)
        k = 'verif_c%d' % n
        head = 'verif_assert(%s != 0); let mut %s: usize = 0; while %s.len() - %s >= %s /*@R13 %s.len() - %s @*/ ' % (cn, k, x, k, cn, x, k)
        first = '{ let %s = &mut %s[%s..%s + %s]; ' % (dv, x, k, k, cn)
        body = text[bo + 1:bc]
        old = text[a:bc + 1]
        new = head + '\n' * text[a:bo].count('\n') + first + body + ' %s += %s; }' % (k, cn)
        text = text[:a] + new + text[bc + 1:]
        n += 1
    return text, n


def rule_R13c_chunks_take_enum(text):
    """R13c (with `//@ desugar`): `for (I, D) in X.chunks_exact(N).take(M).enumerate() { B }` ->
    `verif_assert(N != 0); let verif_tK = verif_min(M, X.len() / N); let mut k = 0; while k < verif_tK { let I = k; let D = &X[k * N..(k + 1) * N]; B k += 1; }`
    (chunks_exact yields the X.len() / N full chunks in order and panics for N == 0; take(M) stops after M; enumerate numbers from 0)."""
    n = 0
    while True:
        m = rsscan.mask(text)
        hit = None
        for mt in re.finditer(r'\bfor\s+(?:\(\s*(\w+)\s*,\s*(\w+)\s*\)|(\w+))\s+in\s+', m):
            if not rsscan.is_stmt_start(m, mt.start(), 0):
                continue
            bo = rsscan.find_body_open(m, mt.end())
            if bo < 0:
                continue
            hdr = ''.join(text[mt.end():bo].split())
            if mt.group(3):
                z = re.fullmatch(r'(.+?)\.chunks_exact\((.+?)\)\.take\((.+?)\)', hdr)
                if z:
                    hit = (mt.start(), bo, z.group(1), z.group(2), z.group(3), None, mt.group(3))
                    break
                continue
            z = re.fullmatch(r'(.+?)\.chunks_exact\((.+?)\)\.take\((.+?)\)\.enumerate\(\)', hdr)
            if z:
                hit = (mt.start(), bo, z.group(1), z.group(2), z.group(3), mt.group(1), mt.group(2))
                break
        if not hit:
            break
        a, bo, x, cn, tk, iv, dv = hit
        bc = rsscan.match_close(m, bo)
        k = 'verif_e%d' % n
        head = 'verif_assert(%s != 0); let verif_t%d = verif_min(%s, %s.len() / %s); let mut %s: usize = 0; while %s < verif_t%d ' % (cn, n, tk, x, cn, k, k, n)
        first = '{ ' + (('let %s = %s; ' % (iv, k)) if iv else '') + 'let %s = &%s[%s * %s..(%s + 1) * %s]; ' % (dv, x, k, cn, k, cn)
        body = text[bo + 1:bc]
        new = head + '\n' * text[a:bo].count('\n') + first + body + ' %s += 1; }' % k
        text = text[:a] + new + text[bc + 1:]
        n += 1
    return text, n


def rule_R17_untransmute(text):
    """R17 (opt-in, `//@ untransmute`): `let NAME[: TYPE] = [crate::]array_utils::workaround_transmute[_mut](SRC);` is removed and NAME
    renamed to SRC up to the end of the enclosing block.  workaround_transmute re-types `&[Complex<T>]` as `&[Complex<A>]` of the same
    length where A == T is asserted by the constructor (TypeId check): the identity on the shape level."""
    n = 0
    while True:
        m = rsscan.mask(text)
        mt = re.search(r'\blet\s+(?:mut\s+)?(\w+)\s*(?::[^=;]*)?=\s*(?:(?:crate::)?array_utils::)?workaround_transmute(?:_mut)?\(\s*&?\s*(?:mut\s+)?(\w+)\s*\)\s*;', m)
        if not mt:
            break
        name, src = mt.group(1), mt.group(2)
        # end of the enclosing block
        depth, q = 0, mt.end()
        while q < len(m):
            if m[q] in '([{':
                depth += 1
            elif m[q] in ')]}':
                if depth == 0:
                    break
                depth -= 1
            q += 1
        rest = text[mt.end():q]
        mrest = m[mt.end():q]
        out, last = [], 0
        for mm in re.finditer(r'\b%s\b' % re.escape(name), mrest):
            out.append(rest[last:mm.start()]); out.append(src); last = mm.end()
        out.append(rest[last:])
        text = text[:mt.start()] + '\n' * text[mt.start():mt.end()].count('\n') + ''.join(out) + text[q:]
        n += 1
    return text, n


def rule_R13d_zip(text):
    """R13d (with `//@ desugar`): `for (A, B) in X.iter().zip(Y.iter()) { BODY }` -> `let mut k = 0; while k < X.len() && k < Y.len()
    { let A = &X[k]; let B = &Y[k]; BODY k += 1; }` (zip stops at the shorter of the two)."""
    n = 0
    while True:
        m = rsscan.mask(text)
        hit = None
        for mt in re.finditer(r'\bfor\s+\(\s*(\w+)\s*,\s*(\w+)\s*\)\s+in\s+', m):
            if not rsscan.is_stmt_start(m, mt.start(), 0):
                continue
            bo = rsscan.find_body_open(m, mt.end())
            if bo < 0:
                continue
            hdr = ''.join(text[mt.end():bo].split())
            z = re.fullmatch(r'([\w.]+)\.iter\(\)\.zip\(([\w.]+)\.iter\(\)\)', hdr)
            if z:
                hit = (mt.start(), bo, z.group(1), z.group(2), mt.group(1), mt.group(2))
                break
        if not hit:
            break
        a, bo, x, y, av, bv = hit
        bc = rsscan.match_close(m, bo)
        k = 'verif_z%d' % n
        head = 'let mut %s: usize = 0; while %s < %s.len() && %s < %s.len() ' % (k, k, x, k, y)
        first = '{ let %s = &%s[%s]; let %s = &%s[%s]; ' % (av, x, k, bv, y, k)
        body = text[bo + 1:bc]
        new = head + '\n' * text[a:bo].count('\n') + first + body + ' %s += 1; }' % k
        text = text[:a] + new + text[bc + 1:]
        n += 1
    return text, n


def annotate_closure(text, k, params, spec):
    """R1 (closures): give the k-th closure literal typed parameters and a requires/ensures clause."""
    m = rsscan.mask(text)
    hits = [mt for mt in re.finditer(r'(?<=[,(=])(\s*)(move\s+)?\|([^|]*)\|', m)]
    if len(hits) < k:
        raise Inconclusive('closure #%d not found' % k)
    mt = hits[k - 1]
    a = mt.start() + len(mt.group(1))
    pe = mt.end()
    # body: block or expression
    j = pe
    while m[j] in ' \t\r\n':
        j += 1
    flat = ' '.join(spec.split())
    head = '%s|%s| %s ' % (mt.group(2) or '', params, flat)
    if m[j] == '{':
        return text[:a] + head + text[j:]
    # expression body: ends at top-level ',' or closing bracket
    depth, q = 0, j
    while q < len(m):
        c = m[q]
        if c in '([{':
            depth += 1
        elif c in ')]}':
            if depth == 0:
                break
            depth -= 1
        elif c == ',' and depth == 0:
            break
        q += 1
    return text[:a] + head + '{ ' + text[j:q].rstrip() + ' }' + text[q:]


def rule_R7_sqrt(text):
    return re.subn(r'\(\s*(\w+)\s+as\s+f32\s*\)\s*\.sqrt\(\)\s*as\s+(usize|u64)\s*\+\s*1', r'verif_sqrt_limit_\2(\1)', text)


def rule_R16_copy(text):
    """`X.copy_from_slice(Y)` -> `verif_copy_from_slice(X, Y)` (mode-dependent contract: equal lengths is a requirement in
    mode S and a consequence of returning in mode P)"""
    n = 0
    while True:
        m = rsscan.mask(text)
        mt = re.search(r'\.\s*copy_from_slice\s*\(', m)
        if not mt:
            break
        op = mt.end() - 1
        cl = rsscan.match_close(m, op)
        rs = _receiver_start(m, mt.start())
        recv = text[rs:mt.start()].strip()
        arg = text[op + 1:cl]
        old = text[rs:cl + 1]
        if not re.fullmatch(r'\w+', recv):
            recv = '&mut ' + recv      # a place expression such as `output[..k]`
        text = text[:rs] + _pad_newlines(old, 'verif_copy_from_slice(%s, %s)' % (recv, arg.strip())) + text[cl + 1:]
        n += 1
    return text, n


def rule_R10_gates(text):
    """is_x86_feature_detected!("x.y") -> verif_cpu_has_x_y();  TypeId::of::<X>() -> verif_type_id::<X>()"""
    n = 0
    def cpu(mm):
        return 'verif_cpu_has_' + re.sub(r'\W', '_', mm.group(1)) + '()'
    text, k = re.subn(r'\bis_x86_feature_detected!\(\s*"([^"]+)"\s*\)', cpu, text)
    n += k
    text, k = re.subn(r'\b(?:std::arch::)?is_aarch64_feature_detected!\(\s*"([^"]+)"\s*\)', cpu, text)
    n += k
    text, k = re.subn(r'\bTypeId::of::<', 'verif_type_id::<', text)
    return text, n + k



def rule_R18_array_pattern(text):
    """R18: `let [A, B, ..] = E;` (array pattern, rejected by Verus) -> `let verif_apK = E; let A = verif_apK[0]; let B = verif_apK[1]; ..`
    (`_` elements are skipped).  Exact for arrays of Copy elements: the pattern moves each element out by value; a pattern whose arity
    differs from the array length does not compile, and the constant indices are bounds obligations."""
    n = 0
    while True:
        m = rsscan.mask(text)
        mt = re.search(r'\blet\s+\[([^\]=;]*)\]\s*=\s*', m)
        if not mt:
            break
        # end of the statement
        q, d = mt.end(), 0
        while q < len(m):
            if m[q] in '([{':
                d += 1
            elif m[q] in ')]}':
                d -= 1
            elif m[q] == ';' and d == 0:
                break
            q += 1
        if q >= len(m):
            break
        names = [x.strip() for x in text[mt.start(1):mt.end(1)].split(',') if x.strip()]
        tmp = 'verif_ap%d' % n
        new = 'let %s = %s;' % (tmp, text[mt.end():q])
        for k, nm in enumerate(names):
            if nm != '_':
                new += ' let %s = %s[%d];' % (nm, tmp, k)
        text = text[:mt.start()] + new + text[q + 1:]
        n += 1
        if n > 400:
            break
    return text, n


def rule_R19_local_closures(text):
    """R19 (opt-in, `//@ inlineclosures`): a local closure `let [mut] NAME = |p1[: T1], ..| BODY;` is removed and every later call
    `NAME(a1, ..)` becomes `{ let p1[: T1] = a1; .. BODY }` (beta-reduction: a closure call evaluates its arguments and then its body;
    the captured variables are the ones in scope at the definition, which - no re-binding in between being checked here - are the ones
    in scope at the call).  Needed because Verus rejects closures that capture a mutable borrow."""
    n = 0
    while True:
        m = rsscan.mask(text)
        mt = re.search(r'\blet\s+(?:mut\s+)?(\w+)\s*=\s*\|([^|]*)\|\s*', m)
        if not mt:
            break
        name = mt.group(1)
        params = [q.strip() for q in text[mt.start(2):mt.end(2)].split(',') if q.strip()]
        # closure body: up to the `;` at depth 0
        q, d = mt.end(), 0
        while q < len(m):
            if m[q] in '([{':
                d += 1
            elif m[q] in ')]}':
                d -= 1
            elif m[q] == ';' and d == 0:
                break
            q += 1
        cbody = text[mt.end():q].strip()
        rest = text[q + 1:]
        # a re-binding of a captured name or of NAME after the definition would change the meaning: refuse
        if re.search(r'\blet\s+(?:mut\s+)?%s\b' % re.escape(name), rsscan.mask(rest)):
            raise Inconclusive('inlineclosures: closure %s is re-bound' % name)
        out, last = [], 0
        k = 0
        while True:
            mr = rsscan.mask(rest)
            cm = re.search(r'(?<![\w\.])%s\s*\(' % re.escape(name), mr[last:])
            if not cm:
                break
            a = last + cm.start()
            op = last + cm.end() - 1
            cl = rsscan.match_close(mr, op)
            parts = split_top_commas(mr, op + 1, cl)
            args = [rest[x:y].strip() for x, y in parts]
            if len(args) != len(params):
                raise Inconclusive('inlineclosures: closure %s called with %d arguments' % (name, len(args)))
            lets = ' '.join('let %s = %s;' % (pp, aa) for pp, aa in zip(params, args))
            repl = '{ ' + lets + ' ' + cbody + ' }'
            rest = rest[:a] + repl + rest[cl + 1:]
            last = a + len(repl)
            k += 1
        text = text[:mt.start()] + '\n' * text[mt.start():q + 1].count('\n') + rest
        n += 1
        if n > 50:
            break
    return text, n


RULES = [('R18', rule_R18_array_pattern), ('R10', rule_R10_gates), ('R16', rule_R16_copy), ('R7', rule_R7_sqrt), ('R5', rule_R5_strip), ('R2', rule_R2_unchecked), ('R34', rule_R34_asserts), ('R6', rule_R6_minmax)]


# --------------------------------------------------------------------------------------------

class Seg:
    """a piece of generated output with its origin"""
    __slots__ = ('text', 'kind', 'file', 'line', 'label')

    def __init__(self, text, kind, file, line, label=None):
        self.text, self.kind, self.file, self.line, self.label = text, kind, file, line, label



FRAME_PATTERNS = [
    r'\b%(n)s\b[^;{}]*\bas\s*\*\s*mut\b',                       # input.as_ptr() as *mut _ / input as *const _ as *mut _
    r'\bfrom_raw_parts_mut\s*\([^;]*\b%(n)s\b',                    # slice::from_raw_parts_mut(input.as_ptr() ...)
    r'\b%(n)s\b[^;{}]*\.\s*cast_mut\s*\(',                         # input.as_ptr().cast_mut()
    r'\btransmute\b[^;]*\(\s*[^;]*\b%(n)s\b',                     # mem::transmute(input) (not workaround_transmute: shared -> shared)
    r'\bworkaround_transmute_mut\s*\(\s*&?\s*%(n)s\b',           # re-typing helper for mutable slices applied to the shared input
    r'&\s*mut\s*\*\s*\([^;]*\b%(n)s\b[^;]*\*\s*mut\b',
]


def frame_scan(text):
    """C15 frame obligation: a function that receives a SHARED slice (`name: &[..]`) must not manufacture a mutable alias of it.
    Returns [(param, matched text)] for every construct in the body that re-types such a parameter (or a pointer derived from it
    in the same expression) as mutable.  Safe Rust cannot write through `&[T]`; these are the only ways around the borrow checker."""
    m = rsscan.mask(text)
    fk = re.search(r'\bfn\b', m)
    if not fk:
        return []
    bo = rsscan.find_body_open(m, fk.start())
    if bo < 0:
        return []
    sig, body = m[:bo], m[bo:]
    hits = []
    for pm in re.finditer(r'\b(\w+)\s*:\s*&\s*(?:\'\w+\s+)?\[', sig):
        name = pm.group(1)
        for pat in FRAME_PATTERNS:
            for mt in re.finditer(pat % {'n': re.escape(name)}, body):
                if 'workaround_transmute(' in mt.group(0) and 'transmute_mut' not in mt.group(0) and 'as *mut' not in mt.group(0).replace('as  *mut', 'as *mut'):
                    continue
                hits.append((name, ' '.join(text[bo + mt.start():bo + mt.end()].split())[:160], text[:bo + mt.start()].count('\n')))
    return hits


class FnEdit:
    def __init__(self):
        self.generics = []   # (param, tyvar)
        self.ret = None
        self.spec = None     # (text, tmpl_line)
        self.loops = {}      # k -> (text, line)
        self.inlineclosures = False
        self.expandreps = []  # (file, macro): macros with one `$( .. )*` repetition list, expanded in place
        self.loopall = None  # (text, line): loop annotation for every loop without its own `loop K`
        self.start = None
        self.anchors = []    # (where, n, regex, text, line)
        self.subs = []       # (regex, repl)
        self.external = False
        self.opts = {}
        self.closures = {}
        self.shape = False
        self.afterloops = {}
        self.attrs = []
        self.desugar = False
        self.selfmut = None
        self.desugar_vars = []
        self.loadstore = []
        self.specof = None
        self.sig = None
        self.untransmute = False
        self.inlines = []


class Generator:
    def __init__(self, unit_path, mode, repo=REPO, probe=False):
        self.probe = probe
        self.unit_path = unit_path
        self.mode = mode
        self.repo = repo
        self.segs = []
        self.files = {}
        self.log = []          # rewrite-rule applications etc.
        self.pending_item_subs = []
        self.pin_failures = []
        self.functions = []    # functions under contract: dict(name,file,line,external,probe)
        self.meta = {'unit': None, 'modes': ['S'], 'props': [], 'tier': 'quick'}
        self.rule_counts = {}
        self.clauses = 0
        self.defines = set()
        self.spec_registry = {}  # fn path -> (spec, generics): `//@ specof NAME` re-uses the contract of a forwarding callee

    # ---- helpers
    def file(self, rel):
        p = os.path.join(self.repo, rel)
        if rel not in self.files:
            if not os.path.exists(p):
                raise Inconclusive('source file missing: %s' % rel)
            try:
                self.files[rel] = rsscan.File(p)
            except rsscan.ScanError as e:
                raise Inconclusive('scan error in %s: %s' % (rel, e))
        return self.files[rel]

    def emit(self, text, kind, file, line, label=None):
        if not text.endswith('\n'):
            text += '\n'
        self.segs.append(Seg(text, kind, file, line, label))

    # ---- template parsing
    def run(self):
        self._process_template(self.unit_path)
        return self

    def _read_template(self, path):
        with open(path) as f:
            return f.read().split('\n')

    def _process_template(self, path, subst=None):
        lines = self._read_template(path)
        if subst:
            lines = [re.sub(r'\$\{(\w+)\}|\$(\w+)', lambda mm: subst.get(mm.group(1) or mm.group(2), mm.group(0)), ln) for ln in lines]
        rel = os.path.relpath(path, os.path.dirname(VX_DIR))
        i = 0
        cond_stack = []  # booleans: active?

        def active():
            return all(cond_stack)

        while i < len(lines):
            ln = lines[i]
            s = ln.strip()
            if not s.startswith('//@'):
                if active():
                    self.emit(ln, 'tmpl', rel, i + 1)
                i += 1
                continue
            d = s[3:].strip()
            tok = d.split()
            cmd = tok[0] if tok else ''
            if cmd == 'if':
                cond_stack.append(self._cond(tok[1:]))
            elif cmd == 'else':
                cond_stack[-1] = not cond_stack[-1]
            elif cmd == 'endif':
                cond_stack.pop()
            elif not active():
                # skip directive (and, for fn blocks, their body) when inactive
                if cmd in ('fn', 'macrofn', 'macroexpr'):
                    while i < len(lines) and lines[i].strip() != '//@ end':
                        i += 1
            elif cmd == 'undef':
                self.defines.discard(tok[1])
            elif cmd == 'define':
                self.defines.add(tok[1])
            elif cmd == 'unit':
                self.meta['unit'] = tok[1]
            elif cmd == 'modes':
                self.meta['modes'] = tok[1:]
            elif cmd == 'props':
                self.meta['props'] = tok[1:]
            elif cmd == 'tier':
                self.meta['tier'] = tok[1]
            elif cmd == 'clauseprops':
                self.meta['clauseprops'] = tok[1:]
            elif cmd == 'assume':
                self.log.append({'assumption': d[len('assume'):].strip()})
            elif cmd == 'include':
                self._process_template(os.path.join(VX_DIR, tok[1]), self._kv(tok[2:]))
            elif cmd == 'simdsigs':
                import simdsigs
                self.Inconclusive = Inconclusive
                for gl in simdsigs.generate(self, tok[1]):
                    self.emit(gl, 'tmpl', rel, i + 1)
            elif cmd == 'simdtrait':
                import simdsigs
                self.Inconclusive = Inconclusive
                for gl in simdsigs.gen_trait(self, tok[1], tok[2], tuple(x for t3 in tok[3:] for x in t3.split(',') if x) or ('SseV',)):
                    self.emit(gl, 'tmpl', rel, i + 1)
            elif cmd == 'avxsigs':
                import avxsigs
                self.Inconclusive = Inconclusive
                for gl in avxsigs.generate(self, tok[1]):
                    self.emit(gl, 'tmpl', rel, i + 1)
            elif cmd == 'item':
                self._do_item(tok[1], tok[2], tok[3], tok[4:], rel, i + 1)
            elif cmd == 'pin':
                # `//@ pin FILE REGEX`: an assumed contract is tied to the source text it was read from
                pf = self.file(tok[1])
                rg = d.split(None, 2)[2]
                if not re.search(rg, pf.src):
                    # deferred: a frame-obligation failure (C15) does not depend on any assumed contract and is still reported;
                    # everything else in this unit becomes INCONCLUSIVE (run.py)
                    self.pin_failures.append('%s:%d: pinned text %r no longer found in %s' % (rel, i + 1, rg, tok[1]))
                self.log.append({'pin': tok[1], 'regex': rg})
            elif cmd in ('itemsub', 'itemsub?'):
                # `itemsub?`: a general type rewrite that may match zero times
                rg, rp = d[len(cmd):].split('=>', 1)
                self.pending_item_subs.append((rg.strip(), rp.strip(), cmd.endswith('?')))
            elif cmd in ('fn', 'macrofn', 'macroexpr'):
                j = i + 1
                block = []
                while j < len(lines) and lines[j].strip() != '//@ end':
                    block.append((j + 1, lines[j]))
                    j += 1
                if j >= len(lines):
                    raise Inconclusive('%s:%d: fn without //@ end' % (rel, i + 1))
                edit = self._parse_edit(block, rel)
                if cmd == 'fn':
                    self._do_fn(tok[1], tok[2], self._kv(tok[3:]), edit, rel, i + 1)
                elif cmd == 'macroexpr':
                    self._do_macroexpr(tok[1], tok[2], self._kv(tok[3:]), edit, rel, i + 1)
                else:
                    self._do_macrofn(tok[1], tok[2], tok[3], self._kv(tok[4:]), edit, rel, i + 1)
                i = j
            else:
                raise Inconclusive('%s:%d: unknown directive %r' % (rel, i + 1, d))
            i += 1

    def _cond(self, toks):
        # `if S`, `if P`, `if probe`
        t = toks[0]
        if t in ('S', 'P'):
            return self.mode == t
        if t == 'def':
            return toks[1] in self.defines
        if t == 'ndef':
            return toks[1] not in self.defines
        raise Inconclusive('unknown condition %s' % t)

    @staticmethod
    def _kv(toks):
        r = {}
        for t in toks:
            if '=' in t:
                k, v = t.split('=', 1)
                r[k] = v
            else:
                r[t] = True
        return r

    def _parse_edit(self, block, rel):
        e = FnEdit()
        cur = None  # (kind, args, lines, startline)

        def flush():
            nonlocal cur
            if cur is None:
                return
            kind, args, ls, l0 = cur
            text = '\n'.join(ls)
            if kind == 'spec':
                e.spec = (text, l0)
            elif kind == 'loop':
                e.loops[int(args[0])] = (text, l0)
            elif kind == 'loopall':
                e.loopall = (text, l0)
            elif kind == 'start':
                e.start = (text, l0)
            elif kind in ('before', 'after'):
                e.anchors.append((kind, int(args[0]), ' '.join(args[1:]), text, l0))
            elif kind == 'afterloop':
                e.afterloops[int(args[0])] = (text, l0)
            elif kind == 'closure':
                e.closures[int(args[0])] = (args[1].strip().strip('|'), text, l0)
            cur = None

        for lno, ln in block:
            s = ln.strip()
            if s.startswith('//@'):
                flush()
                d = s[3:].strip()
                tok = d.split()
                c = tok[0]
                if c == 'generic':
                    e.generics.append((tok[1], tok[2]))
                elif c == 'ret':
                    e.ret = tok[1]
                elif c == 'external':
                    kvx = self._kv(tok[1:])
                    if 'ifdef' in kvx or 'ifmode' in kvx:
                        e.external = (kvx.get('ifdef') in self.defines) or (kvx.get('ifmode') == self.mode)
                    else:
                        e.external = True
                elif c == 'shape':
                    e.shape = True
                elif c == 'specof':
                    e.specof = tok[1]
                elif c == 'untransmute':
                    e.untransmute = True
                elif c == 'inlineclosures':
                    e.inlineclosures = True
                elif c == 'inline':
                    e.inlines.append((tok[1], tok[2]))
                elif c == 'expandrep':
                    e.expandreps.append((tok[1], tok[2]))
                elif c == 'sig':
                    e.sig = d[len('sig'):].strip()
                elif c == 'selfmut':
                    e.selfmut = tok[1]
                elif c == 'desugar':
                    e.desugar = True
                    e.desugar_vars = tok[1:]
                elif c == 'loadstore':
                    e.loadstore = tok[1:]
                elif c == 'attr':
                    e.attrs.append(d[len('attr'):].strip())
                elif c == 'closure':
                    # //@ closure K |typed params|   followed by spec lines
                    cur = ('closure', [tok[1], d.split(None, 2)[2]], [], lno + 1)
                elif c in ('sub', 'sub?'):
                    # `sub?`: a general rewrite that may match zero times (`sub` must match: a pinned expression)
                    rg, rp = d[len(c):].split('=>', 1)
                    e.subs.append((rg.strip(), rp.strip(), c == 'sub?'))
                elif c == 'if':
                    # conditional inside fn block: only whole sub-directives
                    cur = ('cond', tok[1:], [], lno)
                    raise Inconclusive('%s:%d: //@ if inside fn block unsupported' % (rel, lno))
                elif c in ('spec', 'loop', 'loopall', 'start', 'before', 'after', 'afterloop'):
                    cur = (c, tok[1:], [], lno + 1)
                elif c in ('specS', 'specP'):
                    # mode-specific spec
                    if c[-1] == self.mode:
                        cur = ('spec', [], [], lno + 1)
                    else:
                        cur = ('skip', [], [], lno + 1)
                elif c in ('onlyS', 'onlyP'):
                    # next sub-directive applies to this mode only: `//@ onlyS after 1 ^x`
                    if c[-1] == self.mode:
                        c2 = tok[1]
                        cur = (c2, tok[2:], [], lno + 1)
                    else:
                        cur = ('skip', [], [], lno + 1)
                else:
                    raise Inconclusive('%s:%d: unknown sub-directive %r' % (rel, lno, d))
            else:
                if cur is not None:
                    cur[2].append(ln)
                elif s:
                    raise Inconclusive('%s:%d: stray text in fn block' % (rel, lno))
        flush()
        return e

    # ---- item extraction
    def _do_item(self, kind, frel, name, opts, trel, tline):
        f = self.file(frel)
        its = f.find_named(kind if kind != 'macro' else 'macro', name)
        if len(its) != 1:
            raise Inconclusive('item %s %s in %s: found %d' % (kind, name, frel, len(its)))
        it = its[0]
        text = it.text
        kv = self._kv(opts)
        # derive attributes written on the lines above the item belong to it (Copy/Clone matter for ownership checking)
        if 'noderive' not in kv:
            ls = f.src.rfind('\n', 0, it.start)
            prev_end = ls
            while prev_end > 0:
                pls = f.src.rfind('\n', 0, prev_end) + 1
                line = f.src[pls:prev_end].strip()
                if line.startswith('#[derive(') and line.endswith(')]'):
                    keep = [d.strip() for d in line[len('#[derive('):-2].split(',') if d.strip() in ('Copy', 'Clone')]
                    if keep:
                        text = '#[derive(%s)] ' % ', '.join(keep) + text
                    prev_end = pls - 1
                elif line.startswith('#[') or line.startswith('///') or line.startswith('//'):
                    prev_end = pls - 1
                else:
                    break
        for rg, rp, opt in self.pending_item_subs:
            text, k = re.subn(rg, rp, text)
            if k == 0 and opt:
                continue
            if k == 0:
                raise Inconclusive('item %s: itemsub %r did not match' % (name, rg))
            self._count('local-sub', k)
            self.log.append({'rule': 'local-sub', 'item': name, 'regex': rg, 'repl': rp, 'count': k})
        self.pending_item_subs = []
        text = self._apply_rules(text, frel, it.first_line)
        if 'noderive' in kv:
            text, k = re.subn(r'(?m)^[ \t]*#\[derive\([^\]]*\)\][ \t]*$', '', text)
            self._count('R5-derive', k)
        if 'pub' in kv and not re.match(r'\s*pub\b', text):
            text = 'pub ' + text      # visibility only (R5)
            self._count('R5')
        pre = ''
        if 'reject_recursive' in kv:
            pre = '#[verifier::reject_recursive_types(%s)]\n' % kv['reject_recursive']
            self._count('R9')
        if pre:
            self.emit(pre, 'tmpl', trel, tline)
        self.emit(text, 'repo', frel, it.first_line)

    def _count(self, rule, k=1):
        self.rule_counts[rule] = self.rule_counts.get(rule, 0) + k

    def _apply_rules(self, text, frel, line0):
        for name, fn in RULES:
            text, k = fn(text)
            if k:
                self._count(name, k)
                self.log.append({'rule': name, 'file': frel, 'line': line0, 'count': k})
        return text

    def _locate_fn(self, f, path):
        """path: name | Type::name | Trait@Type::name | Type[arg]::name (impl header must read `Type<arg...`)"""
        mt = re.match(r'(?:(\w+)@)?(?:(\w+)(?:\[([\w, ]+)\])?::)?(\w+)$', path)
        if not mt:
            raise Inconclusive('bad fn path %r' % path)
        trait, ty, targ, name = mt.groups()
        if ty is None:
            # free function: depth 0 inside file or inside a `mod`? we accept any nesting depth 0 wrt file
            items = f.find_fn(name)
            if not items:
                # inside inline modules (not impl): search every mod block
                for kw, hdr, o, c in f.blocks(r'(?m)^[ \t]*(?:pub(?:\([a-z]+\))?\s+)?mod\b'):
                    items += f.find_fn(name, o + 1, c)
        else:
            items = []
            for kw, o, c, h in f.find_impl_blocks(ty, trait):
                if targ and (ty + '<' + targ.replace(' ', '')) not in re.sub(r'\s', '', h):
                    continue
                items += f.find_fn(name, o + 1, c)
            if not items and not trait:
                # provided (default) method of a trait declaration `trait Ty ... { fn name(..) {..} }`
                for kw, hdr, o, c in f.blocks(r'(?m)^[ \t]*(?:pub(?:\([a-z]+\))?\s+)?trait\s+%s\b' % re.escape(ty)):
                    items += [it for it in f.find_fn(name, o + 1, c) if it.text.rstrip().endswith('}')]
        if len(items) != 1:
            raise Inconclusive('fn %s in %s: found %d candidates' % (path, f.path, len(items)))
        return items[0]

    def _do_fn(self, frel, path, kv, edit, trel, tline):
        if edit.specof:
            if edit.specof not in self.spec_registry:
                raise Inconclusive('%s: specof %s: no such contract seen before' % (path, edit.specof))
            edit.spec, gen = self.spec_registry[edit.specof]
            if not edit.generics:
                edit.generics = list(gen)
        self.spec_registry[kv.get('as', path)] = (edit.spec, list(edit.generics))
        f = self.file(frel)
        if 'impl' in kv:
            # `//@ fn FILE name impl=REGEX`: the fn `name` inside the one impl block whose (whitespace-normalized) header matches REGEX -
            # for impls on types that have no plain name (`impl<S> Trait<S> for &[Complex<S>]`)
            name = path.split('::')[-1]
            items = []
            for kw, hdr, o, c in f.blocks(r'(?m)^[ \t]*(?:unsafe\s+)?impl\b'):
                h = ' '.join(hdr.split())
                if re.search(kv['impl'], h):
                    items += f.find_fn(name, o + 1, c)
            if len(items) != 1:
                raise Inconclusive('fn %s (impl=%s) in %s: found %d candidates' % (path, kv['impl'], f.path, len(items)))
            it = items[0]
        else:
            it = self._locate_fn(f, path)
        self._emit_fn(it.text, frel, it.first_line, path, kv, edit, trel, tline)

    def _do_macrofn(self, frel, macro, fname, kv, edit, trel, tline):
        f = self.file(frel)
        its = f.find_named('macro', macro)
        if len(its) != 1:
            raise Inconclusive('macro %s in %s: found %d' % (macro, frel, len(its)))
        mac = its[0]
        # find the fn inside macro body (any depth)
        sub = rsscan.File(f.path, text=f.src)  # same text; search within macro range
        cands = []
        for mt in re.finditer(r'\bfn\s+%s\b' % re.escape(fname), sub.m[mac.body_open:mac.end]):
            pos = mac.body_open + mt.start()
            o = rsscan.find_body_open(sub.m, pos, mac.end)
            if o < 0:
                continue
            c = rsscan.match_close(sub.m, o)
            cands.append((rsscan._item_start(sub.src, sub.m, pos), c + 1))
        which = int(kv.get('nth', 1))
        if len(cands) < which:
            raise Inconclusive('macrofn %s::%s: %d candidates' % (macro, fname, len(cands)))
        if len(cands) > 1 and 'nth' not in kv:
            raise Inconclusive('macrofn %s::%s ambiguous (%d)' % (macro, fname, len(cands)))
        a, b = cands[which - 1]
        text = sub.src[a:b]
        line0 = rsscan.line_of(sub.src, a)
        # instantiate macro params
        if 'use' in kv:
            text = self._instantiate_macro(f, mac, macro, text, kv, '%s::%s' % (macro, fname))
        self._emit_fn(text, frel, line0, '%s!::%s' % (macro, fname), kv, edit, trel, tline)


    def _macro_params(self, f, mac, macro):
        """parameter list of the (single) rule of a macro_rules!: [(name, rep_sep or None)]"""
        hdr = f.src[mac.body_open:mac.end]
        mh = rsscan.mask(hdr)
        p0 = mh.find('(')
        if p0 < 0:
            raise Inconclusive('cannot parse params of macro %s' % macro)
        p1 = rsscan.match_close(mh, p0)
        if not re.match(r'\s*=>', mh[p1 + 1:]):
            raise Inconclusive('cannot parse params of macro %s' % macro)
        names = []
        for a, b in split_top_commas(mh, p0 + 1, p1):
            piece = hdr[a:b].strip()
            m1 = re.fullmatch(r'\$(\w+)\s*:\s*\w+', piece)
            m2 = re.fullmatch(r'\$\(\s*\$(\w+)\s*:\s*\w+\s*\)\s*([;,]?)\s*\*', piece)
            if m1:
                names.append((m1.group(1), None))
            elif m2:
                names.append((m2.group(1), m2.group(2) or ' '))
            elif piece:
                raise Inconclusive('macro %s: unsupported pattern piece %r' % (macro, piece))
        return names

    def _find_invocation(self, uf, macro, inst, infn=None):
        lo, hi = 0, len(uf.m)
        if infn:
            it = self._locate_fn(uf, infn)
            lo, hi = it.start, it.end
        for mt in re.finditer(r'\b%s\s*!\s*\(' % re.escape(macro), uf.m[lo:hi]):
            op = lo + mt.end() - 1
            cl = rsscan.match_close(uf.m, op)
            parts = split_top_commas(uf.m, op + 1, cl, closure_params=True)
            args = [re.sub(r'//[^\n]*', '', uf.src[x:y]).strip() for x, y in parts]
            if infn or inst is None or (args and args[0] == inst):
                return args
        return None

    def _instantiate_macro(self, f, mac, macro, text, kv, what):
        uf = self.file(kv['use'])
        inst = kv.get('inst')
        inv = self._find_invocation(uf, macro, inst, kv.get('infn'))
        if inv is None:
            raise Inconclusive('no invocation %s!(%s, ..) in %s' % (macro, inst or kv.get('infn'), kv['use']))
        names = self._macro_params(f, mac, macro)
        if len(names) != len(inv):
            raise Inconclusive('macro %s arity mismatch' % macro)
        keep = set((kv.get('keep') or '').split(',')) - {''}
        # repetitions `$( ... $name ... )*` are expanded first, once per element of the invocation's list
        for (nm, sep), val in zip(names, inv):
            if sep is None:
                continue
            elems = [e.strip() for e in val.split(sep.strip() or None) if e.strip()] if val.strip() else []
            while True:
                m = rsscan.mask(text)
                hit = None
                for mt in re.finditer(r'\$\(', m):
                    op = mt.end() - 1
                    cl = rsscan.match_close(m, op)
                    inner = text[op + 1:cl]
                    if re.search(r'\$%s\b' % nm, inner) and re.match(r'\s*[;,]?\s*\*', m[cl + 1:]):
                        tail = re.match(r'\s*[;,]?\s*\*', m[cl + 1:]).end()
                        hit = (mt.start(), cl + 1 + tail, inner)
                        break
                if hit is None:
                    break
                a, b, inner = hit
                rep = ''.join(re.sub(r'\$%s\b' % nm, e, inner) for e in elems)
                # keep the line count of the surrounding text stable where possible
                d = text[a:b].count('\n') - rep.count('\n')
                text = text[:a] + rep + ('\n' * d if d > 0 else '') + text[b:]
                self._count('R12-rep', len(elems))
        for (nm, sep), val in zip(names, inv):
            if sep is not None:
                continue
            if nm in keep:
                # declared abstraction: the macro argument (a register-level kernel: closure or path) is replaced by the
                # abstract function `verif_<param>` declared in the template
                text, k = re.subn(r'\$%s\b' % nm, 'verif_' + nm, text)
                self._count('R12-keep', k)
                continue
            # R12: `$f(self)` with closure-valued arg `|this: &X<_>| BODY` -> BODY[this:=self]
            cm = re.match(r'\|\s*(\w+)\s*(?::[^|]*)?\|\s*(.*)$', val, re.S)
            if cm:
                var, body = cm.group(1), cm.group(2).strip()
                def repl(mm, var=var, body=body):
                    arg = mm.group(1).strip()
                    return '(' + re.sub(r'\b%s\b' % var, arg, body) + ')'
                text, k = re.subn(r'\$%s\s*\(([^()]*)\)' % nm, repl, text)
                if k:
                    self._count('R12', k)
            text = re.sub(r'\$%s\b' % nm, val.replace('\\', '\\\\'), text)
        if '$' in rsscan.mask(text):
            raise Inconclusive('macro %s: unsubstituted $ remains' % what)
        self.log.append({'macro_inst': macro, 'struct': inst or kv.get('infn'), 'args': inv[1:] if inst else inv})
        return text

    def _do_macroexpr(self, frel, macro, kv, edit, trel, tline):
        """expression macro (`macro_rules! m { (params) => {{ BODY }} }`) emitted as a function: `//@ sig` gives the signature,
        the body is the macro body instantiated with the arguments of its invocation inside fn `infn` of file `use`."""
        f = self.file(frel)
        its = f.find_named('macro', macro)
        if len(its) != 1:
            raise Inconclusive('macro %s in %s: found %d' % (macro, frel, len(its)))
        mac = its[0]
        m = f.m
        p0 = m.find('(', mac.body_open)
        p1 = rsscan.match_close(m, p0)
        mt = re.match(r'\s*=>\s*\{\s*\{', m[p1 + 1:])
        if not mt:
            raise Inconclusive('macro %s: body is not `{{ ... }}`' % macro)
        bo = p1 + 1 + mt.end() - 1          # inner '{'
        bc = rsscan.match_close(m, bo)
        body = f.src[bo:bc + 1]
        line0 = rsscan.line_of(f.src, bo)
        body = self._instantiate_macro(f, mac, macro, body, kv, macro)
        if not edit.sig:
            raise Inconclusive('macroexpr %s: //@ sig missing' % macro)
        text = edit.sig + ' ' + body
        self._emit_fn(text, frel, line0, '%s!' % macro, kv, edit, trel, tline)


    def _expand_rep_macros(self, text, specs):
        """`//@ expandrep FILE MACRO`: every invocation `MACRO!(a1, .., { i1, i2, .. })` inside the function is replaced by the
        transcription of the macro's single rule `(P1, .., { $($idx:literal),* }) => { BODY }`: `$(...)*` groups of BODY are repeated
        once per list element with `$idx` replaced, the other `$name`s are replaced by the argument text - what macro_rules does for
        this shape of rule (identifier / literal fragments only, one repetition variable).  R12-rep, counted per invocation."""
        for frel, macro in specs:
            f = self.file(frel)
            its = f.find_named('macro', macro)
            if len(its) != 1:
                raise Inconclusive('macro %s in %s: found %d' % (macro, frel, len(its)))
            mac = its[0]
            m = f.m
            p0 = m.find('(', mac.body_open)
            p1 = rsscan.match_close(m, p0)
            pat = f.src[p0 + 1:p1]
            # pattern: comma separated `$name:frag` and exactly one `{ $($rep:literal),* }`
            pm = re.fullmatch(r'\s*((?:\$\w+\s*:\s*(?:ident|literal|expr)\s*,\s*)*)\{\s*\$\(\s*\$(\w+)\s*:\s*literal\s*\)\s*,\s*\*\s*\}\s*', pat)
            if not pm:
                raise Inconclusive('macro %s: unsupported pattern %r' % (macro, ' '.join(pat.split())))
            names = re.findall(r'\$(\w+)\s*:', pm.group(1))
            rep = pm.group(2)
            mt = re.match(r'\s*=>\s*[\(\{]', m[p1 + 1:])
            if not mt:
                raise Inconclusive('macro %s: cannot find rule body' % macro)
            bo = p1 + 1 + mt.end() - 1
            bc = rsscan.match_close(m, bo)
            body_src = re.sub(r'//[^\n]*', '', f.src[bo + 1:bc])
            n = 0
            while True:
                tm = rsscan.mask(text)
                iv = re.search(r'\b%s\s*!\s*\(' % re.escape(macro), tm)
                if not iv:
                    break
                op = iv.end() - 1
                cl = rsscan.match_close(tm, op)
                parts = split_top_commas(tm, op + 1, cl)
                args = [text[x:y].strip() for x, y in parts]
                if len(args) != len(names) + 1 or not re.fullmatch(r'\{[\s\d,]*\}', args[-1]):
                    raise Inconclusive('macro %s: invocation does not fit the rule' % macro)
                idxs = [q.strip() for q in args[-1].strip('{} \n').split(',') if q.strip()]
                body = body_src
                # repetition groups
                while True:
                    bm = rsscan.mask(body)
                    g = re.search(r'\$\(', bm)
                    if not g:
                        break
                    gop = g.end() - 1
                    gcl = rsscan.match_close(bm, gop)
                    if bm[gcl + 1:gcl + 2] != '*':
                        raise Inconclusive('macro %s: repetition with a separator is not supported' % macro)
                    inner = body[gop + 1:gcl]
                    body = body[:g.start()] + ''.join(re.sub(r'\$%s\b' % rep, ix, inner) for ix in idxs) + body[gcl + 2:]
                for nm, val in zip(names, args[:-1]):
                    body = re.sub(r'\$%s\b' % nm, lambda _m, v=val: v, body)
                if '$' in rsscan.mask(body):
                    raise Inconclusive('macro %s: unsubstituted $ remains after expansion' % macro)
                text = text[:iv.start()] + ' '.join(body.split()) + text[cl + 1:]
                n += 1
            if n:
                self._count('R12-rep2', n)
                self.log.append({'rule': 'R12-rep2', 'macro': macro, 'file': frel, 'count': n})
        return text

    def _inline_stmt_macros(self, text, specs):
        """`//@ inline FILE MACRO`: every statement-position invocation `MACRO!(args);` inside the function is replaced by the body of
        the macro's (single) rule.  A closure-valued argument `|p1, p2| BODY` applied in the body as `$name(a1, a2)` becomes
        `{ let p1 = a1; let p2 = a2; BODY }` (beta-reduction: the closure is called with the evaluated arguments); every other
        argument is substituted textually.  R12-inline, counted per invocation."""
        for frel, macro in specs:
            f = self.file(frel)
            its = f.find_named('macro', macro)
            if len(its) != 1:
                raise Inconclusive('macro %s in %s: found %d' % (macro, frel, len(its)))
            mac = its[0]
            names = self._macro_params(f, mac, macro)
            m = f.m
            p0 = m.find('(', mac.body_open)
            p1 = rsscan.match_close(m, p0)
            mt = re.match(r'\s*=>\s*[\(\{]', m[p1 + 1:])
            if not mt:
                raise Inconclusive('macro %s: cannot find rule body' % macro)
            bo = p1 + 1 + mt.end() - 1
            bc = rsscan.match_close(m, bo)
            body_src = f.src[bo + 1:bc]
            n = 0
            while True:
                tm = rsscan.mask(text)
                iv = re.search(r'\b%s\s*!\s*\(' % re.escape(macro), tm)
                if not iv:
                    break
                op = iv.end() - 1
                cl = rsscan.match_close(tm, op)
                parts = split_top_commas(tm, op + 1, cl, closure_params=True)
                args = [re.sub(r'//[^\n]*', '', text[x:y]).strip() for x, y in parts]
                if len(args) != len(names):
                    raise Inconclusive('macro %s arity mismatch at an inlined invocation' % macro)
                body = body_src
                for (nm, sep), val in zip(names, args):
                    cm = re.match(r'\|([^|]*)\|\s*(.*)$', val, re.S)
                    if cm:
                        params = [q.strip() for q in cm.group(1).split(',') if q.strip()]
                        cbody = cm.group(2).strip()
                        while True:
                            bm = rsscan.mask(body)
                            am = re.search(r'\$%s\s*\(' % nm, bm)
                            if not am:
                                break
                            aop = am.end() - 1
                            acl = rsscan.match_close(bm, aop)
                            aparts = split_top_commas(bm, aop + 1, acl)
                            aargs = [body[x:y].strip() for x, y in aparts]
                            if len(aargs) != len(params):
                                raise Inconclusive('macro %s: closure argument %s applied with %d arguments' % (macro, nm, len(aargs)))
                            lets = ' '.join('let %s = %s;' % (re.sub(r':.*$', '', pp), aa) for pp, aa in zip(params, aargs))
                            body = body[:am.start()] + '{ ' + lets + ' ' + cbody + ' }' + body[acl + 1:]
                    else:
                        body = re.sub(r'\$%s\b' % nm, lambda _m, v=val: v, body)
                if '$' in rsscan.mask(body):
                    raise Inconclusive('macro %s: unsubstituted $ remains after inlining' % macro)
                # swallow the `;` that follows the invocation
                end = cl + 1
                if tm[end:end + 1] == ';':
                    end += 1
                text = text[:iv.start()] + '; { ' + body + ' }' + text[end:]   # leading `;`: a loop with invariants directly before a block confuses the Verus parser
                n += 1
            if n == 0:
                raise Inconclusive('inline requested but no invocation of %s!' % macro)
            self._count('R12-inline', n)
            self.log.append({'rule': 'R12-inline', 'macro': macro, 'count': n})
        return text

    def _emit_fn(self, text, frel, line0, path, kv, edit, trel, tline):
        fhits = frame_scan(text)
        if fhits:
            # the frame obligation fails: emit a named, failing obligation tagged C15 and keep the function as an assumed stub so that
            # the rest of the unit still checks
            fname = re.search(r'\bfn\s+(\w+)', rsscan.mask(text)).group(1)
            for (pname, what, dl) in fhits[:1]:
                self.emit('proof fn verif_frame_%s_%d()\n    ensures false, // @C15 frame: shared input `%s` is re-typed as mutable (%s)\n{}' % (fname, len(self.functions), pname, what.replace('\n', ' ').replace('*/', '* /')), 'repo', frel, line0 + dl, 'frame:' + fname)
            self.log.append({'frame_violation': path, 'param': fhits[0][0], 'text': fhits[0][1]})
            self._count('frame-obligation-failed')
            # keep signature-level edits only; the body is dropped
            e2 = FnEdit()
            e2.generics, e2.ret, e2.spec, e2.attrs, e2.specof = edit.generics, edit.ret, edit.spec, [a for a in edit.attrs if 'loop_isolation' not in a], edit.specof
            e2.subs = [(x[0], x[1], True) for x in edit.subs]
            e2.external = True
            edit = e2
            m0 = rsscan.mask(text)
            bo0 = rsscan.find_body_open(m0, re.search(r'\bfn\b', m0).start())
            text = text[:bo0] + '{ }' + '\n' * text[bo0:].count('\n')
        if edit.inlines and not fhits:
            text = self._inline_stmt_macros(text, edit.inlines)
        if edit.expandreps:
            text = self._expand_rep_macros(text, edit.expandreps)
        if edit.inlineclosures:
            text, k = rule_R19_local_closures(text)
            if k:
                self._count('R19', k)
                self.log.append({'rule': 'R19', 'count': k})
        text = self._apply_rules(text, frel, line0)
        if edit.selfmut:
            # R15: `mut self` receiver (unsupported by Verus) -> `self` moved into a mutable local of the given name; every
            # `self` of the body is renamed (alpha-renaming; `Self` untouched)
            m0 = rsscan.mask(text)
            fk = re.search(r'\bfn\b', m0).start()
            bo0 = rsscan.find_body_open(m0, fk)
            sig0, body0 = text[:bo0], text[bo0:]
            sig0, k = re.subn(r'\(\s*mut\s+self\b', '(self', sig0)
            if k != 1:
                raise Inconclusive('%s: selfmut requested but the receiver is not `mut self`' % path)
            mb = rsscan.mask(body0)
            out, last = [], 0
            for mm in re.finditer(r'\bself\b', mb):
                out.append(body0[last:mm.start()]); out.append(edit.selfmut); last = mm.end()
            out.append(body0[last:])
            body0 = ''.join(out)
            body0 = '{ let mut %s = self;' % edit.selfmut + body0[1:]
            text = sig0 + body0
            self._count('R15')
            self.log.append({'rule': 'R15', 'fn': path})
        if edit.untransmute:
            text, k = rule_R17_untransmute(text)
            if k == 0:
                raise Inconclusive('%s: untransmute requested but no workaround_transmute binding found' % path)
            self._count('R17', k)
            self.log.append({'rule': 'R17', 'fn': path, 'count': k})
        for sub_ in edit.subs:
            rg, rp = sub_[0], sub_[1]
            optional = len(sub_) > 2 and sub_[2]
            def _padded(mm, rp=rp):
                newt = mm.expand(rp)
                d = mm.group(0).count('\n') - newt.count('\n')
                return newt + ('\n' * d if d > 0 else '')
            text, k = re.subn(rg, _padded, text)
            if k == 0 and optional:
                continue
            if k == 0:
                raise Inconclusive('%s: local rewrite %r did not match' % (path, rg))
            self._count('local-sub', k)
            self.log.append({'rule': 'local-sub', 'fn': path, 'regex': rg, 'repl': rp, 'count': k})
        if edit.loadstore:
            text, k = rule_R2b_loadstore(text, edit.loadstore)
            if k:
                self._count('R2b', k)
                self.log.append({'rule': 'R2b', 'fn': path, 'count': k})
        if edit.desugar:
            # (the named by-value / slice variables are passed as an argument: units are extracted concurrently)
            text, k = rule_R13_desugar(text, tuple(edit.desugar_vars))
            text, k2 = rule_R13b_chunks(text)
            text, k3 = rule_R13c_chunks_take_enum(text)
            text, k4 = rule_R13d_zip(text)
            k2 += k3 + k4
            if k + k2:
                self._count('R13', k + k2)
                self.log.append({'rule': 'R13', 'fn': path, 'count': k + k2})
        if edit.shape:
            text, k = rule_R8_R11_shape(text)
            if k:
                self._count('R8/R11', k)
                self.log.append({'rule': 'R8/R11', 'fn': path, 'count': k})
        for k in sorted(edit.closures):
            params, cspec, cl = edit.closures[k]
            text = annotate_closure(text, k, params, cspec)
            self._count('R1-closure')
            self.clauses += len(re.findall(r'\b(requires|ensures)\b', cspec))
        m = rsscan.mask(text)
        fnkw = re.search(r'\bfn\b', m).start()
        bo = rsscan.find_body_open(m, fnkw)
        if bo < 0:
            raise Inconclusive('%s: no body' % path)
        bc = rsscan.match_close(m, bo)
        sig = text[:bo]
        msig = m[:bo]
        name = re.search(r'\bfn\s+(\w+)', msig).group(1)
        # rename
        if 'as' in kv:
            sig = re.sub(r'\bfn\s+%s\b' % name, 'fn ' + kv['as'], sig, count=1)
            name = kv['as']
            msig = rsscan.mask(sig)
        # R1 generics
        for param, tv in edit.generics:
            mm = re.search(r'\b%s\s*:\s*impl\s+' % re.escape(param), msig)
            if not mm:
                raise Inconclusive('%s: R1 param %s not `impl Trait`' % (path, param))
            # trait text extends to top-level ',' or ')' of the parameter list
            a = mm.end()
            depth, k = 0, a
            while k < len(msig):
                c = msig[k]
                if c in '([<':
                    depth += 1
                elif c in ')]>':
                    if depth == 0:
                        break
                    if c == '>' and msig[k - 1] == '-':
                        pass
                    else:
                        depth -= 1
                elif c == ',' and depth == 0:
                    break
                k += 1
            bound = sig[a:k].strip()
            sig = sig[:mm.start()] + '%s: %s' % (param, tv) + sig[k:]
            # add to generics
            msig = rsscan.mask(sig)
            g = re.search(r'\bfn\s+\w+\s*(<)?', msig)
            if g.group(1):
                # find matching '>' for the generics list: insert before it
                d, q = 0, g.end() - 1
                while q < len(msig):
                    if msig[q] == '<':
                        d += 1
                    elif msig[q] == '>' and msig[q - 1] != '-':
                        d -= 1
                        if d == 0:
                            break
                    q += 1
                inner = sig[g.end():q].rstrip()
                sep = '' if inner.endswith(',') or not inner.strip() else ','
                sig = sig[:q] + '%s %s: %s' % (sep, tv, ' '.join(bound.split())) + sig[q:]
            else:
                q = g.end()
                sig = sig[:q] + '<%s: %s>' % (tv, ' '.join(bound.split())) + sig[q:]
            msig = rsscan.mask(sig)
            self._count('R1')
        # named return
        if edit.ret:
            msig = rsscan.mask(sig)
            # the parameter list is the first (...) after fn name/generics
            g = re.search(r'\bfn\s+\w+', msig)
            p = msig.find('(', g.end())
            # skip generics containing parens (Fn bounds)
            if '<' in msig[g.end():p]:
                d, q = 0, g.end()
                while q < len(msig):
                    if msig[q] == '<':
                        d += 1
                    elif msig[q] == '>' and msig[q - 1] != '-':
                        d -= 1
                        if d == 0:
                            break
                    q += 1
                p = msig.find('(', q)
            pc = rsscan.match_close(msig, p)
            ar = msig.find('->', pc)
            if ar < 0:
                raise Inconclusive('%s: ret requested but fn returns ()' % path)
            wh = re.search(r'\bwhere\b', msig[ar:])
            tend = ar + wh.start() if wh else len(sig)
            rty = sig[ar + 2:tend].strip()
            sig = sig[:ar] + '-> (%s: %s) ' % (edit.ret, rty) + ('\n' * sig[ar:tend].count('\n')) + sig[tend:]
        body = text[bo + 1:bc]
        mbody = m[bo + 1:bc]
        # collect insertions into body: list of (offset, text, tmpl_line, order)
        ins = []
        if self.probe and not edit.external:
            ins.append((0, '        proof { assert(false); } /*PROBE:%s*/' % re.search(r'\bfn\s+(\w+)', sig).group(1), tline))
        if edit.start:
            ins.append((0, edit.start[0], edit.start[1]))
        loops = rsscan.find_loops(mbody, 0, len(mbody))
        for k, (ltext, lline) in edit.loops.items():
            if k < 1 or k > len(loops):
                raise Inconclusive('%s: loop %d not found (%d loops)' % (path, k, len(loops)))
            ins.append((loops[k - 1][1], ltext, lline))
            self.clauses += len(re.findall(r'(?m)^\s*(invariant|decreases|ensures)\b|,\s*$', ltext))
        if edit.loopall:
            for k, (kw, lo) in enumerate(loops, 1):
                if k not in edit.loops:
                    ins.append((lo, edit.loopall[0], edit.loopall[1]))
                    self.clauses += len(re.findall(r'(?m)^\s*(invariant|decreases|ensures)\b|,\s*$', edit.loopall[0]))
        # R13 loops without their own annotation still need a termination measure
        for k, (kw, lo) in enumerate(loops, 1):
            if k not in edit.loops:
                mk = re.search(r'/\*@R13 (.*?) @\*/', body[kw:lo])
                if mk:
                    ins.append((lo, '            invariant %s <= %s.len(), decreases %s' % (mk.group(1).split(' - ')[1], mk.group(1).split('.len()')[0], mk.group(1)), tline))
        for k, (ltext, lline) in edit.afterloops.items():
            if k < 1 or k > len(loops):
                raise Inconclusive('%s: loop %d not found (%d loops)' % (path, k, len(loops)))
            ins.append((rsscan.stmt_end(mbody, loops[k - 1][0], len(mbody)), ltext, lline))
        for where, nth, rg, atext, aline in edit.anchors:
            hits = []
            try:
                cre = re.compile(rg)
            except re.error as ex:
                raise Inconclusive('%s: bad anchor regex %r: %s' % (path, rg, ex))
            for mt in cre.finditer(mbody):
                p = mt.start()
                # regex may start with ^ : we test statement start ourselves
                if rsscan.is_stmt_start(mbody, p, 0):
                    hits.append(p)
            # allow anchors written with leading ^ (python ^ only matches at string start w/o MULTILINE)
            if not hits and rg.startswith('^'):
                cre2 = re.compile(rg[1:])
                for mt in cre2.finditer(mbody):
                    p = mt.start()
                    if rsscan.is_stmt_start(mbody, p, 0):
                        hits.append(p)
            if len(hits) < nth:
                raise Inconclusive('%s: anchor %r #%d not found' % (path, rg, nth))
            p = hits[nth - 1]
            if where == 'before':
                ins.append((p, atext, aline))
            else:
                ins.append((rsscan.stmt_end(mbody, p, len(mbody)), atext, aline))
        # emit
        label = name
        info = {'name': path, 'file': frel, 'line': line0, 'external': edit.external, 'emitted_as': name}
        self.functions.append(info)
        for at in edit.attrs:
            self.emit(at, 'tmpl', trel, tline, label)
        if edit.external:
            self.emit('#[verifier::external_body]', 'tmpl', trel, tline, label)
            self._count('R9')
        self.emit(sig.rstrip('\n'), 'repo', frel, line0, label)
        if edit.spec:
            self.emit(edit.spec[0], 'tmpl', trel, edit.spec[1], label)
            self.clauses += len(re.findall(r'(?m)^\s*(requires|ensures|decreases)\b|,\s*$', edit.spec[0]))
        if edit.external:
            self.emit('{ unimplemented!() }', 'tmpl', trel, tline, label)
            return
        # body with insertions; body starts on the line of '{'
        bline = line0 + text[:bo].count('\n')
        ins.sort(key=lambda t: t[0])
        self.segs.append(Seg('{', 'repo', frel, bline, label))
        pos = 0
        cur_line = bline
        for off, itext, iline in ins:
            chunk = body[pos:off]
            if chunk:
                self.segs.append(Seg(chunk, 'repo', frel, cur_line, label))
                cur_line += chunk.count('\n')
            self.segs.append(Seg('\n' + itext + '\n', 'tmpl', trel, iline - 1, label))
            pos = off
        chunk = body[pos:]
        self.segs.append(Seg(chunk + '}\n', 'repo', frel, cur_line, label))

    # ---- output
    def render(self):
        """returns (text, linemap) where linemap[i] = (kind, file, line, label) for output line i+1"""
        out_lines = []
        linemap = []
        cur = ''
        cur_origin = None
        for s in self.segs:
            parts = s.text.split('\n')
            for k, part in enumerate(parts):
                if k > 0:
                    out_lines.append(cur)
                    linemap.append(cur_origin)
                    cur = ''
                    cur_origin = None
                if part:
                    if cur_origin is None or cur.strip() == '':
                        cur_origin = (s.kind, s.file, s.line + k, s.label)
                    cur += part
                elif cur_origin is None:
                    cur_origin = (s.kind, s.file, s.line + k, s.label)
        if cur:
            out_lines.append(cur)
            linemap.append(cur_origin)
        return '\n'.join(out_lines) + '\n', linemap


def generate(unit, mode, repo=REPO, probe=False):
    path = unit if os.path.exists(unit) else os.path.join(VX_DIR, 'units', unit + '.vx')
    g = Generator(path, mode, repo, probe).run()
    text, linemap = g.render()
    return g, text, linemap


def unit_meta(unit):
    """cheap header parse: modes/props/tier without touching /repo"""
    path = os.path.join(VX_DIR, 'units', unit + '.vx')
    meta = {'unit': unit, 'modes': ['S'], 'props': [], 'tier': 'quick', 'clauseprops': []}
    for ln in open(path):
        s = ln.strip()
        if s.startswith('//@ modes'):
            meta['modes'] = s.split()[2:]
        elif s.startswith('//@ props'):
            meta['props'] = s.split()[2:]
        elif s.startswith('//@ tier'):
            meta['tier'] = s.split()[2]
        elif s.startswith('//@ clauseprops'):
            meta['clauseprops'] = s.split()[2:]
    return meta


if __name__ == '__main__':
    unit, mode = sys.argv[1], sys.argv[2]
    try:
        g, text, linemap = generate(unit, mode)
    except Inconclusive as e:
        print('INCONCLUSIVE', e)
        sys.exit(2)
    out = sys.argv[3] if len(sys.argv) > 3 else '/dev/stdout'
    with open(out, 'w') as f:
        f.write(text)
    if out != '/dev/stdout':
        with open(out + '.map.json', 'w') as f:
            json.dump({'linemap': linemap, 'log': g.log, 'functions': g.functions, 'rules': g.rule_counts}, f)
