"""Vacuity guards (DESIGN 2.6).

Reachability probes: every exec function that is verified (not external) gets `proof { assert(false); }` as its first
statement in a copy of the generated unit; Verus must reject every probe.  A probe that *verifies* means the function's
precondition (or an assumption it relies on) is contradictory, so its "success" would be vacuous.

Canary mutants: fixed textual mutations of the *extracted* text (never of /repo); each must make the named function fail.
"""
import os
import re
import sys

sys.path.insert(0, os.path.dirname(os.path.abspath(__file__)))
import extract  # noqa: E402
import rsscan   # noqa: E402

QUICK_PROBE_UNITS = {'helpers'}

# unit, mode, regex (on generated text), replacement, function expected to fail
CANARIES = [
    ('helpers', 'S', r'while buffer\.len\(\) >= chunk_size\s', 'while buffer.len() > chunk_size ', 'validate_and_iter'),
    ('helpers', 'S', r'if buffer1\.len\(\) != buffer2\.len\(\) \{\s*return Err\(\(\)\);\s*\}', '', 'validate_and_zip'),
    ('helpers', 'P', r'verif_assert\(\(actual_len % expected_len\) == \(0\)\)', 'verif_assert(true)', 'fft_helper_inplace'),
    ('helpers', 'S', r'let scratch = &mut scratch\[\.\.required_scratch\];', '', 'validate_and_iter'),
    ('mixed_radix', 'S', r'let inplace_scratch_len = len\s*\+ max\(', 'let inplace_scratch_len = len + verif_min(', 'new'),
    ('mixed_radix', 'S', r'scratch\.split_at_mut\(self\.len\(\)\)', 'scratch.split_at_mut(self.len() + 1)', 'perform_fft_inplace'),
    ('good_thomas', 'S', r'let immut_scratch_len = max\(', 'let immut_scratch_len = verif_min(', 'new'),
    ('fft_cache', 'S', r'FftDirection::Forward => self\.forward_cache\.insert\(len, cloned\)', 'FftDirection::Forward => self.inverse_cache.insert(len, cloned)', 'insert'),
    ('math_utils', 'S', r'let mut divisor = 5;', 'let mut divisor = 7;', 'compute'),
    ('math_utils', 'S', r'divisor \+= 2;', 'divisor += 4;', 'compute'),
    ('math_utils', 'S', r'first_factor\.count -= half_factor\.count;', '', 'partition_factors'),
    ('math_utils', 'S', r'this\.total_factor_count /= 2;', '', 'partition_factors'),
    ('math_utils', 'S', r'right_product <<= this\.power_two;', 'right_product <<= this.power_three;', 'partition_factors'),
    ('math_utils', 'S', r'self\.other_factors\[0\]\.value <= factor', 'self.other_factors[0].value < factor', 'has_factors_leq'),
    ('math_utils', 'S', r'verif_p = verif_p \* f\.value\.pow\(f\.count\);', 'verif_p = verif_p * f.value;', 'product_above'),
    ('plan_scalar', 'S', r'if \*left \* right == len && verif_contains', 'if verif_contains', 'design_butterfly_product'),
    ('plan_scalar', 'S', r'if gcd\(left_len, right_len\) == 1 \{', 'if gcd(left_len, right_len) != 1 {', 'design_butterfly_product'),
    ('plan_scalar', 'S', r'if len < 2 \{', 'if len < 3 {', 'design_fft_for_len'),
    ('plan_scalar', 'S', r'let min_inner_len = 2 \* len - 1;', 'let min_inner_len = 2 * len - 2;', 'design_prime'),
    ('plan_scalar', 'S', r'verif_assert\(p2 > 5\);([^\n]*)\n(\s*)if p2 % 2 == 1 \{\s*8', r'verif_assert(p2 > 5);\1\n\2if p2 % 2 == 0 {\n 8', 'design_radixn'),
    ('plan_scalar', 'S', r'self\.algorithm_cache\.get\(len, direction\)', 'self.algorithm_cache.get(len, direction.opposite_direction())', 'build_fft'),
    ('array_utils', 'S', r'let output_index = y \+ x \* height;', 'let output_index = x + y * height;', 'transpose_small'),
    ('array_utils', 'S', r'result = \(result \* D\) \+ \(value % D\);', 'result = (result * D) + (value % 2);', 'reverse_bits'),
    ('butterflies', 'P', r'verif_copy_from_slice\(output, input\)', 'verif_copy_from_slice(&mut output[..0], &input[..0])', 'process_immutable_with_scratch'),
    ('radix4', 'S', r'immut_scratch_len: base_inplace_scratch,', 'immut_scratch_len: outofplace_scratch_len,', 'new_with_base'),
    ('radix4', 'S', r'let twiddle_offset = num_columns \* \(ROW_COUNT - 1\);', 'let twiddle_offset = num_columns * ROW_COUNT;', 'perform_fft_immut'),
    ('raders', 'S', r'let input_element = input\[input_index - 1\];', 'let input_element = input[input_index];', 'perform_fft_immut'),
    ('bluesteins', 'S', r'scratch\.split_at_mut\(self\.inner_fft_multiplier\.len\(\)\)', 'scratch.split_at_mut(self.len)', 'perform_fft_inplace'),
    ('twiddles', 'S', r'let i_squared = i as u64 \* i as u64;', 'let i_squared = (i as u32 * i as u32) as u64;', 'fill_bluesteins_twiddles'),
    ('radix_ctor', 'S', r'\(5, verif_arc_dyn\(Butterfly32', '(4, verif_arc_dyn(Butterfly32', 'new'),
    ('radix_ctor', 'S', r'_ => \(3, verif_arc_dyn\(Butterfly27', '_ => (2, verif_arc_dyn(Butterfly27', 'new'),
    ('sse_butterflies', 'P', r'self\.verif_kernel2_inplace\(chunk\)', 'self.verif_kernel_inplace(chunk)', 'process_with_scratch'),
    ('plan_avx', 'S', r'verif_sort_cands\(&mut bluesteins_candidates\);', '', 'plan_bluesteins'),
    ('plan_avx', 'S', r'if candidate >= baseline_candidate \{', 'if candidate >= 2 * baseline_candidate {', 'plan_bluesteins'),
    ('plan_scalar', 'S', r'let inner_len_factor3 = inner_len_pow2 / 4 \* 3;', 'let inner_len_factor3 = inner_len_pow2 * 3;', 'design_prime'),
    ('plan_sse', 'S', r'let inner_len_factor3 = inner_len_pow2 / 4 \* 3;', 'let inner_len_factor3 = inner_len_pow2 * 3;', 'design_prime'),
    ('dft', 'S', r'vec!\[Complex::zero\(\); this\.get_inplace_scratch_len\(\)\]', 'vec![Complex::zero(); this.get_outofplace_scratch_len()]', 'verif_fft_process'),
    ('dft', 'P', r'this\.process_with_scratch\(buffer, &mut scratch\);', 'if buffer.len() > 1 { this.process_with_scratch(buffer, &mut scratch); }', 'verif_fft_process'),
    ('plan_sse', 'S', r'13 => verif_arc_dyn\(SseF32Butterfly13::new\(direction\)\)', '13 => verif_arc_dyn(SseF32Butterfly17::new(direction))', 'construct_prime_butterfly'),
    ('plan_sse', 'S', r'&\[7, 11, 13, 17, 19, 23, 29, 31, \]', '&[7, 11, 13, 17, 19, 23, 29, 37, ]', 'prime_butterfly_lens'),
    ('plan_sse', 'S', r'const MIN_RADIX4_BITS: u32 = 6;', 'const MIN_RADIX4_BITS: u32 = 1;', 'design_fft_with_factors'),
    ('plan_sse', 'S', r'let k = cross_bits / 2;', 'let k = cross_bits / 2 + 1;', 'design_radix4'),
    ('plan_sse', 'S', r'if left_len < 33 && right_len < 33 \{', 'if left_len < 34 && right_len < 34 {', 'design_mixed_radix'),
    ('plan_sse', 'S', r'count: len\.trailing_zeros\(\),', 'count: len.trailing_zeros() - 1,', 'design_fft_with_factors'),
    ('math_utils', 'S', r'this\.n >>= factor\.count;', 'this.n >>= factor.count + 1;', 'remove_factors'),
    ('planner_gates', 'S', r'if has_avx && has_fma \{', 'if has_avx || has_fma {', 'new'),
    ('dft', 'S', r'twiddle_index -= self\.twiddles\.len\(\);', 'twiddle_index -= 1;', 'perform_fft_immut'),
    ('plan_avx', 'S', r'plan\.push_radix\(16\);', 'plan.push_radix(8);', 'plan_mixed_radix'),
    ('plan_avx', 'S', r'verif_drain_incl\(&mut chain, 0, cached_index\)', 'verif_drain_excl(&mut chain, 0, cached_index)', 'replan_with_cache'),
    ('plan_avx', 'S', r'96 => Some\(MixedRadixPlan::butterfly\(32, vec!\[3\]\)\)', '96 => Some(MixedRadixPlan::butterfly(32, vec![4]))', 'plan_mixed_radix_base'),
    ('plan_avx', 'S', r'let min_factor2 = 2;', 'let min_factor2 = 1;', 'plan_bluesteins'),
    ('plan_avx', 'S', r'7 => wrap_fft\(MixedRadix7xnAvx', '7 => wrap_fft(MixedRadix8xnAvx', 'construct_plan'),
    ('avx_mixed_radix_f32', 'S', r'inplace_scratch_len: len \+ inner_outofplace_scratch,', 'inplace_scratch_len: len,', 'verif_gen_data'),
    ('avx_mixed_radix_f64', 'S', r'let \(scratch, inner_scratch\) = scratch\.split_at_mut\(self\.len\(\)\);', 'let (scratch, inner_scratch) = scratch.split_at_mut(self.len() + 1);', 'perform_fft_inplace'),
    ('avx_bluesteins', 'S', r'3 => verif_store_partial3_complex\(output,', '3 => verif_store_complex(output,', 'finalize_bluesteins'),
    ('avx_raders', 'S', r'let \(scratch2, extra_scratch\) = scratch\.split_at_mut\(self\.len\(\)\);', 'let (scratch2, extra_scratch) = scratch.split_at_mut(self.len() + 2);', 'perform_fft_immut'),
    ('neon_radix4', 'S', r'let twiddle_offset = num_vector_columns \* \(ROW_COUNT - 1\);', 'let twiddle_offset = num_vector_columns * ROW_COUNT;', 'perform_fft_immut'),
    ('neon_radix4', 'S', r'idx \+= (\d) \* 2;', r'idx += \1 * 2 + 1;', 'butterfly_4'),
    ('neon_radix4', 'S', r'for k in 1\.\.ROW_COUNT', 'for k in 0..ROW_COUNT', 'new'),
    ('wasm_radix4', 'S', r'let twiddle_offset = num_vector_columns \* \(ROW_COUNT - 1\);', 'let twiddle_offset = num_vector_columns * ROW_COUNT;', 'perform_fft_immut'),
    ('wasm_radix4', 'S', r'idx \+= (\d) \* 2;', r'idx += \1 * 2 + 1;', 'butterfly_4'),
    ('wasm_radix4', 'S', r'for k in 1\.\.ROW_COUNT', 'for k in 0..ROW_COUNT', 'new'),
    ('sse_radix4', 'S', r'idx \+= (\d) \* 2;', r'idx += \1 * 2 + 1;', 'butterfly_4'),
    ('avx_bluesteins', 'S', r'let chunk_count = div_ceil\(len, (\d)\);', r'let chunk_count = len / \1;', 'new_with_avx'),
    ('avx_bluesteins', 'S', r'let required_scratch = inner_fft_input\.len\(\) \+ inner_fft_scratch\.len\(\);', 'let required_scratch = inner_fft_input.len();', 'new_with_avx'),
    ('avx_bluesteins', 'S', r'inner_fft_input\[inner_fft_len - i\] = twiddle;', 'inner_fft_input[inner_fft_len - i + 1] = twiddle;', 'new_with_avx'),
    ('avx_kernels_f32', 'S', r'verif_store_complex\(verif_out,\s*output1\[r\], 8 \* r \+ 4\);', 'verif_store_complex(verif_out, output1[r], 8 * r + 5);', 'perform_fft_f32'),
    ('avx_kernels_f32', 'S', r'self\.twiddles\[r - 1 \+ 7\]', 'self.twiddles[r - 1 + 8]', 'perform_fft_f32'),
    ('avx_kernels_f32', 'S', r'verif_load_complex\(verif_in,\s*12 \* r \+ 8\)', 'verif_load_complex(verif_in, 12 * r + 9)', 'perform_fft_f32'),
    ('avx_kernels_f64', 'S', r'mid_uninit\[4 \* chunk \+ 3\]', 'mid_uninit[4 * chunk + 4]', 'column_butterflies_and_transpose'),
    ('avx_kernels_f64', 'S', r'for columnset in 0\.\.\(verif_array_len\(&self\.twiddles\) / TWIDDLES_PER_COLUMN\)', 'for columnset in 0..(verif_array_len(&self.twiddles) / TWIDDLES_PER_COLUMN + 1)', 'column_butterflies_and_transpose'),
    ('simd_kernels_sse', 'S', r'verif_store_complex\(verif_out,\s*out02, 0\)', 'verif_store_complex(verif_out, out02, 3)', 'perform_parallel_fft_contiguous'),
    ('simd_kernels_sse', 'S', r'verif_load1_complex\(verif_in,\s*6\),?\s*\]', 'verif_load1_complex(verif_in, 7) ]', 'perform_fft_contiguous'),
    ('simd_kernels_neon', 'S', r'verif_store_complex\(verif_out,\s*out02, 0\)', 'verif_store_complex(verif_out, out02, 3)', 'perform_parallel_fft_contiguous'),
    ('simd_kernels_neon', 'S', r'verif_load1_complex\(verif_in,\s*6\),?\s*\]', 'verif_load1_complex(verif_in, 7) ]', 'perform_fft_contiguous'),
    ('simd_kernels_wasm', 'S', r'verif_store_complex\(verif_out,\s*out02, 0\)', 'verif_store_complex(verif_out, out02, 3)', 'perform_parallel_fft_contiguous'),
    ('simd_kernels_wasm', 'S', r'verif_wload1_complex\(verif_in,\s*6\),?\s*\]', 'verif_wload1_complex(verif_in, 7) ]', 'perform_fft_contiguous'),
    ('good_thomas', 'S', r'let increments_until_cycle =\s*1 \+ \(self\.len\(\) - destination_index\)', 'let increments_until_cycle = 2 + (self.len() - destination_index)', 'reindex_input'),
    ('good_thomas', 'S', r'destination_index -= self\.width;', 'destination_index -= self.width - 1;', 'reindex_input'),
    ('good_thomas', 'S', r'let start_x = self\.height - quotient;', 'let start_x = self.height - quotient - 1;', 'reindex_output'),
    ('good_thomas', 'S', r'if width > height \{', 'if width > height + 1 {', 'new'),
    ('avx_raders', 'S', r'\.output_index_mapping\[self\.output_index_mapping\.len\(\) - 1\]', '.output_index_mapping[self.output_index_mapping.len()]', 'finalize_raders'),
    ('avx_raders', 'S', r'let index_chunk = self\.output_index_mapping\[i\];', 'let index_chunk = self.output_index_mapping[i + 2];', 'finalize_raders'),
    ('simd_accessors_neon', 'S', r'vst1_f32\(ptr, low\);', 'vst1q_f32(ptr, low);', 'store_partial_lo_complex'),
    ('simd_accessors_neon', 'S', r'verif_debug_assert\(this\.len\(\) >= index \+ 1\);\s*SseV::load1_complex', 'SseV::load_complex', 'load1_complex'),
    ('simd_accessors_wasm', 'S', r'v128_load64_splat\(ptr\)', 'v128_load(ptr)', 'load1_complex'),
    ('sse_radix4', 'S', r'let twiddle_offset = num_vector_columns \* \(ROW_COUNT - 1\);', 'let twiddle_offset = num_vector_columns * ROW_COUNT;', 'perform_fft_immut'),
    ('partial_factors', 'S', r'power3: self\.power3 - divisor\.power3,', 'power3: self.power3 - divisor.power2,', 'divide_by'),
    ('prime_roots', 'S', r'divisor \+= 2;', 'divisor += 4;', 'distinct_prime_factors'),
    ('prime_roots', 'S', r'result = result \* base % modulo;', 'result = result * result % modulo;', 'modular_exponent'),
    ('prime_roots', 'S', r'base = \(base \* base\) % modulo;', 'base = (base * base * base) % modulo;', 'modular_exponent'),
    ('prime_roots', 'S', r'if modular_exponent\(potential_root, \*exp, prime\) == 1 \{', 'if modular_exponent(potential_root, *exp, prime) == 0 {', 'primitive_root'),
    ('prime_roots', 'S', r'test_exponents\.push\(\(prime - 1\) / factor\);', 'test_exponents.push(prime / factor);', 'primitive_root'),
    ('prime_roots', 'S', r'return Some\(potential_root\);', 'return Some(potential_root + 1);', 'primitive_root'),
    ('array_utils', 'S', r'let output_index = y \+ \*rev \* height;', 'let output_index = y + *rev * width;', 'bitreversed_transpose'),
    ('planner_dispatch', 'S', r'self\.plan_fft\(len, FftDirection::Inverse\)', 'self.plan_fft(len, FftDirection::Forward)', 'plan_fft_inverse'),
    ('good_thomas', 'S', r'input_output_map\.push\(\(x \* height \+ y \* width\) % len\)', 'input_output_map.push(x * height + y * width)', 'new'),
    ('avx_plumbing', 'P', r'self\.get_inplace_scratch_len\(\),', 'self.get_outofplace_scratch_len(),', 'process_with_scratch'),
]


def probe_lines(text):
    probes = {}
    for i, ln in enumerate(text.split('\n')):
        mm = re.search(r'/\*PROBE:(\w+)\*/', ln)
        if mm:
            probes[i + 1] = mm.group(1)
    return probes



def _memo_key(kind, text):
    import hashlib
    import run as driver
    return kind + '-' + hashlib.sha256((text + '\0' + driver._verus_id()).encode()).hexdigest()


def _memo_get(key):
    import json
    import run as driver
    if os.environ.get('VERIF_VX_NOCACHE') == '1':
        return None
    f = os.path.join(driver.BUILD, 'vx-cache', key + '.json')
    try:
        return json.load(open(f))
    except Exception:
        return None


def _memo_put(key, r):
    import json
    import run as driver
    d = os.path.join(driver.BUILD, 'vx-cache')
    os.makedirs(d, exist_ok=True)
    try:
        json.dump(r, open(os.path.join(d, key + '.json'), 'w'))
    except Exception:
        pass


def run_for(prop, tier, units, outdir, run_unit_text):
    import run as driver
    results = []
    for (unit, mode) in units:
        if tier != 'thorough' and unit not in QUICK_PROBE_UNITS:
            continue
        try:
            gen, probed, linemap = extract.generate(unit, mode, driver.REPO, probe=True)
        except Exception as e:  # extractor problems are already reported by the main run
            continue
        probes = probe_lines(probed)
        if not probes:
            continue
        fname = '%s_%s_probe.rs' % (unit, mode)
        path = os.path.join(outdir, fname)
        with open(path, 'w') as f:
            f.write(probed)
        # memo (same idea as the verifier memo of run.py): a probe / canary result is a function of the generated text and the verifier
        pkey = _memo_key('probe', probed)
        hitm = _memo_get(pkey)
        if hitm is not None:
            hitm['memoized'] = 'byte-identical probed text verified earlier in this build directory'
            results.append(hitm)
            continue
        js, diags, raw, wall, cmd = driver.run_verus(path, extra=['--multiple-errors', '0'])
        hit = set()
        tool = []
        for d in diags or []:
            if d.get('level') != 'error':
                continue
            msg = d.get('message', '')
            if msg.startswith('aborting'):
                continue
            if d.get('code') is None and msg.startswith('assertion failed'):
                for s in d.get('spans', []):
                    if s.get('file_name') == fname and s['line_start'] in probes:
                        hit.add(s['line_start'])
            elif d.get('code') is not None or 'not supported' in msg or 'rlimit' in msg.lower():
                tool.append(msg[:200])
        missed = [probes[l] for l in probes if l not in hit]
        r = {'name': 'probe:%s[%s]' % (unit, mode), 'probes': len(probes), 'rejected': len(hit), 'wall_s': round(wall, 1)}
        if tool:
            r.update(status='inconclusive', reason='tool error while probing: ' + '; '.join(tool[:2]))
        elif missed:
            r.update(status='inconclusive', reason='VACUITY: `assert(false)` at the start of %s verified (contradictory precondition or assumption)' % ', '.join(missed[:6]))
        else:
            r.update(status='ok', obligations=0, discharged=0)
            _memo_put(pkey, r)
        results.append(r)
    if tier == 'thorough':
        done = set(units)
        for (unit, mode, rg, rp, fn) in CANARIES:
            if (unit, mode) not in done:
                continue
            try:
                gen, text, linemap = extract.generate(unit, mode, driver.REPO)
            except Exception:
                continue
            mutated, k = re.subn(rg, rp, text, count=1)
            name = 'canary:%s[%s]/%s' % (unit, mode, fn)
            if k == 0:
                results.append({'name': name, 'status': 'inconclusive', 'reason': 'canary pattern no longer matches the extracted text: %s' % rg[:60]})
                continue
            tag = 'canary%d' % (abs(hash((unit, mode, rg))) % 100000)
            ckey = _memo_key('canary', mutated)
            hitm = _memo_get(ckey)
            if hitm is not None:
                hitm['name'] = name
                hitm['memoized'] = 'byte-identical mutant verified earlier in this build directory'
                results.append(hitm)
                continue
            r = run_unit_text(unit, mode, mutated, linemap, gen, outdir, tag)
            failed_fns = set(f.get('function') for f in r['failures'])
            if fn in failed_fns:
                results.append({'name': name, 'status': 'ok', 'killed_by': sorted(failed_fns)[:4]})
                _memo_put(ckey, results[-1])
            elif r['failures']:
                results.append({'name': name, 'status': 'ok', 'killed_by': sorted(failed_fns)[:4], 'note': 'killed in a different function than expected'})
                _memo_put(ckey, results[-1])
            else:
                results.append({'name': name, 'status': 'inconclusive', 'reason': 'canary mutant SURVIVED (%s): the contracts do not pin this behaviour' % (r.get('tool_errors') or 'verified')})
    return results
