"""Small Rust-aware scanner used by the extractor.

It does not parse expressions.  It knows comments, string/char/raw-string literals and
bracket matching, which is enough to locate items by name, split a function into
signature/body, find loops by ordinal and find statement boundaries.
"""
import re


class ScanError(Exception):
    pass


def mask(src):
    """Return a string of the same length as src in which the *contents* of comments,
    string literals and char literals are replaced by spaces (newlines kept), so that
    brace matching and regexes can run on it while offsets stay valid for src."""
    out = list(src)
    i, n = 0, len(src)

    def blank(a, b):
        for k in range(a, b):
            if out[k] != '\n':
                out[k] = ' '

    while i < n:
        c = src[i]
        if c == '/' and i + 1 < n and src[i + 1] == '/':
            j = src.find('\n', i)
            if j < 0:
                j = n
            blank(i, j)
            i = j
        elif c == '/' and i + 1 < n and src[i + 1] == '*':
            depth, j = 1, i + 2
            while j < n and depth:
                if src.startswith('/*', j):
                    depth += 1
                    j += 2
                elif src.startswith('*/', j):
                    depth -= 1
                    j += 2
                else:
                    j += 1
            blank(i, j)
            i = j
        elif c == '"' or (c in 'rb' and re.match(r'(?:br|b|r)#*"', src[i:i + 12]) and (i == 0 or not (src[i - 1].isalnum() or src[i - 1] == '_'))):
            m = re.match(r'(br|b|r)?(#*)"', src[i:i + 12])
            raw = m.group(1) in ('r', 'br')
            hashes = m.group(2)
            j = i + m.end()
            if raw:
                endtok = '"' + hashes
                k = src.find(endtok, j)
                if k < 0:
                    raise ScanError('unterminated raw string')
                blank(j, k)
                i = k + len(endtok)
            else:
                k = j
                while k < n and src[k] != '"':
                    k += 2 if src[k] == '\\' else 1
                blank(j, k)
                i = k + 1
        elif c == "'":
            # char literal or lifetime
            if i + 1 < n and src[i + 1] == '\\':
                k = src.find("'", i + 2)
                # '\'' case
                if src[i + 2] == "'":
                    k = src.find("'", i + 3)
                blank(i + 1, k)
                i = k + 1
            elif i + 2 < n and src[i + 2] == "'":
                blank(i + 1, i + 2)
                i += 3
            else:
                i += 1  # lifetime
        else:
            i += 1
    return ''.join(out)


OPEN = {'(': ')', '[': ']', '{': '}'}
CLOSE = {v: k for k, v in OPEN.items()}


def match_close(m, pos):
    """m: masked text, pos: offset of an opening bracket. Returns offset of its match."""
    stack = []
    i, n = pos, len(m)
    while i < n:
        c = m[i]
        if c in OPEN:
            stack.append(c)
        elif c in CLOSE:
            if not stack or stack[-1] != CLOSE[c]:
                raise ScanError('bracket mismatch at %d' % i)
            stack.pop()
            if not stack:
                return i
        i += 1
    raise ScanError('unclosed bracket at %d' % pos)


def find_body_open(m, pos, end=None):
    """First '{' at ()/[] depth 0 at or after pos."""
    depth = 0
    i = pos
    n = len(m) if end is None else end
    while i < n:
        c = m[i]
        if c in '([':
            depth += 1
        elif c in ')]':
            depth -= 1
        elif c == '{' and depth == 0:
            return i
        elif c == ';' and depth == 0:
            return -1
        i += 1
    return -1


def line_of(src, pos):
    return src.count('\n', 0, pos) + 1


def line_start(src, pos):
    return src.rfind('\n', 0, pos) + 1


class Item:
    def __init__(self, src, m, start, sig_end, end, path, kind):
        self.src, self.m = src, m
        self.start = start      # offset of first char of the item (after attrs/docs)
        self.body_open = sig_end  # offset of '{' (or -1)
        self.end = end          # offset one past final '}' or ';'
        self.path = path
        self.kind = kind

    @property
    def text(self):
        return self.src[self.start:self.end]

    @property
    def first_line(self):
        return line_of(self.src, self.start)


def _item_start(src, m, kwpos):
    """Walk back from the keyword over visibility / qualifiers on the same line."""
    ls = line_start(src, kwpos)
    prefix = m[ls:kwpos]
    if re.fullmatch(r'\s*((pub(\s*\([^)]*\))?|unsafe|const|async|default|extern(\s*"[^"]*")?)\s+)*', prefix):
        return ls + (len(prefix) - len(prefix.lstrip()))
    return kwpos


class File:
    def __init__(self, path, text=None):
        self.path = path
        self.src = open(path).read() if text is None else text
        self.m = mask(self.src)

    # ---- containers -------------------------------------------------------------------
    def blocks(self, kw_regex, lo=0, hi=None):
        """Yield (kwpos, header_text, open, close) for `kw header {` ... `}` items in [lo,hi)."""
        hi = len(self.m) if hi is None else hi
        for mt in re.finditer(kw_regex, self.m[lo:hi]):
            kw = lo + mt.start()
            o = find_body_open(self.m, kw, hi)
            if o < 0:
                continue
            c = match_close(self.m, o)
            yield kw, self.m[kw:o], o, c

    def find_impl_blocks(self, type_name, trait=None):
        res = []
        for kw, hdr, o, c in self.blocks(r'(?m)^[ \t]*(?:unsafe\s+)?impl\b'):
            h = ' '.join(hdr.split())
            mfor = re.search(r'\bfor\b\s+(.*)$', h)
            if mfor:
                tr = h[:mfor.start()]
                ty = mfor.group(1)
            else:
                tr, ty = None, re.sub(r'^(unsafe\s+)?impl(\s*<[^{]*?>)?\s*', '', h, count=1) if False else h
            # self type name = first identifier of ty after stripping generics of impl
            if mfor is None:
                # strip "impl<...>"
                t2 = h
                t2 = re.sub(r'^(unsafe\s+)?impl\s*', '', t2)
                if t2.startswith('<'):
                    # skip balanced <>
                    d, k = 0, 0
                    for k, ch in enumerate(t2):
                        if ch == '<':
                            d += 1
                        elif ch == '>':
                            d -= 1
                            if d == 0:
                                break
                    t2 = t2[k + 1:].strip()
                ty = t2
            tyname = re.match(r'[&\s]*(?:mut\s+)?(?:\w+::)*(\w+)', ty)
            tyname = tyname.group(1) if tyname else ''
            if tyname != type_name:
                continue
            if trait is None and tr is not None:
                continue
            if trait is not None:
                if tr is None or not re.search(r'\b%s\b' % re.escape(trait), tr):
                    continue
            res.append((kw, o, c, h))
        return res

    def find_fn(self, name, lo=0, hi=None, depth_open=None):
        """Find `fn name` whose enclosing brace depth relative to lo is 0."""
        hi = len(self.m) if hi is None else hi
        found = []
        for mt in re.finditer(r'\bfn\s+%s\b' % re.escape(name), self.m[lo:hi]):
            pos = lo + mt.start()
            # depth check
            seg = self.m[lo:pos]
            if seg.count('{') - seg.count('}') != 0:
                continue
            found.append(pos)
        items = []
        for pos in found:
            o = find_body_open(self.m, pos, hi)
            if o < 0:
                # declaration without body (trait method)
                e = self.m.find(';', pos) + 1
                items.append(Item(self.src, self.m, _item_start(self.src, self.m, pos), -1, e, name, 'fn'))
            else:
                c = match_close(self.m, o)
                items.append(Item(self.src, self.m, _item_start(self.src, self.m, pos), o, c + 1, name, 'fn'))
        return items

    def find_named(self, kw, name):
        """struct/enum/trait/const/static/type/macro_rules! at file top level or inside mods."""
        if kw == 'macro':
            rg = r'\bmacro_rules!\s*%s\b' % re.escape(name)
        else:
            rg = r'\b%s\s+%s\b' % (kw, re.escape(name))
        res = []
        for mt in re.finditer(rg, self.m):
            pos = mt.start()
            if kw in ('const', 'static', 'type'):
                e = self.m.find(';', pos) + 1
                res.append(Item(self.src, self.m, _item_start(self.src, self.m, pos), -1, e, name, kw))
                continue
            # struct may be `struct X;` or `struct X(...);` or `struct X {..}`
            semi = self.m.find(';', pos)
            o = find_body_open(self.m, pos)
            if o < 0 or (0 <= semi < o and '{' not in self.m[pos:semi]):
                res.append(Item(self.src, self.m, _item_start(self.src, self.m, pos), -1, semi + 1, name, kw))
            else:
                c = match_close(self.m, o)
                res.append(Item(self.src, self.m, _item_start(self.src, self.m, pos), o, c + 1, name, kw))
        return res


# ---- statement / loop utilities on a function text ---------------------------------------

BLOCK_KW = re.compile(r'(if|while|for|loop|match|unsafe)\b|\{')


def stmt_end(m, p, limit):
    """m masked text; p = offset of statement start; returns offset one past the statement."""
    i = p
    depth = 0
    blocklike = bool(BLOCK_KW.match(m, p))
    # `let` statements are never block-like even if they contain if/else
    while i < limit:
        c = m[i]
        if c in '([{':
            depth += 1
        elif c in ')]}':
            if depth == 0:
                return i  # tail expression: ends before enclosing close
            depth -= 1
            if depth == 0 and c == '}' and blocklike:
                # end of block statement unless followed by else / method call
                j = i + 1
                while j < limit and m[j] in ' \t\r\n':
                    j += 1
                if m.startswith('else', j) and not (m[j + 4].isalnum() or m[j + 4] == '_'):
                    i = j + 4
                    continue
                if j < limit and m[j] in '.?':
                    blocklike = False
                    i += 1
                    continue
                if j < limit and m[j] == ';':
                    return j + 1
                return i + 1
        elif c == ';' and depth == 0:
            return i + 1
        i += 1
    return limit


def is_stmt_start(m, p, lo):
    j = p - 1
    while j >= lo and m[j] in ' \t\r\n':
        j -= 1
    if j < lo:
        return True
    return m[j] in ';{}' or m[j - 1:j + 1] == '=>'


def find_loops(m, lo, hi):
    """Offsets of loop keywords (while/for/loop) in textual order inside [lo,hi) with their body '{'."""
    res = []
    for mt in re.finditer(r'\b(while|for|loop)\b', m[lo:hi]):
        kw = lo + mt.start()
        if mt.group(1) == 'for':
            # skip `for<'a>` and `impl X for Y`
            after = m[kw + 3:kw + 4]
            if after == '<':
                continue
            # a for loop must be at statement start or after a label
            if not (is_stmt_start(m, kw, lo) or re.search(r"'\w+\s*:\s*$", m[lo:kw])):
                continue
        o = find_body_open(m, kw, hi)
        if o < 0:
            continue
        res.append((kw, o))
    return res
