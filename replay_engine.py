"""Builds /repo (current tree) with the replay hook and runs a concrete search for a failed obligation."""
import os
import re
import shutil
import subprocess

ROOT = os.path.dirname(os.path.abspath(__file__))

# obligation function name -> searches to run (default: the function's own name)
ALIASES = {}
# failing unit -> searches that look for a concrete witness of the property the unit serves
UNIT_SEARCHES = {
    'mixed_radix': ['MixedRadix', 'MixedRadixSmall'],
    'good_thomas': ['GoodThomasAlgorithm', 'GoodThomasAlgorithmSmall'],
    'plan_scalar': ['plan_scalar:2048', 'partition:65536'],
    'math_utils': ['partition:65536'],
    'radix4': ['Radix4', 'Radix3'],
    'raders': ['RadersAlgorithm'],
    'bluesteins': ['BluesteinsAlgorithm'],
    'butterflies': ['shapes:40', 'chunks:40'],
    'dft': ['shapes:8'],
    'helpers': ['helpers_small'],
    'twiddles': ['dft_scalar:64+'],
    'array_utils': ['dft_scalar:64+'],
    'fft_cache': ['plan_history:quick'],
}


def build(repo, build_dir, features=''):
    d = os.path.join(build_dir, 'replay' + ('-simd' if features else ''))
    os.makedirs(d, exist_ok=True)
    t = open(os.path.join(ROOT, 'replay', 'Cargo.toml.in')).read().replace('@VERIF@', ROOT).replace('@REPO@', repo)
    if features:
        t = t.replace('default-features = false', 'default-features = false, features = [%s]' % ', '.join('"%s"' % f for f in features.split(',')))
        # unoptimized library code: a write through a shared reference (UB) must show up as a write, not be "optimized away"
        t += '\n[profile.dev.package.rustfft]\nopt-level = 0\n'
    with open(os.path.join(d, 'Cargo.toml'), 'w') as f:
        f.write(t)
    lock = os.path.join(repo, 'Cargo.lock')
    env = dict(os.environ, CARGO_NET_OFFLINE='true', EJMAHLER_RUSTFFT_VERIF_DIR=ROOT,
               RUSTFLAGS='--cfg ejmahler_rustfft_verif -Awarnings', CARGO_TARGET_DIR=os.path.join(build_dir, 'replay-simd-target' if features else 'replay-target'))
    p = subprocess.run(['cargo', 'build', '--offline', '--quiet'], cwd=d, env=env, capture_output=True, text=True, timeout=900)
    if p.returncode != 0:
        return None, p.stderr[-3000:]
    return os.path.join(build_dir, 'replay-simd-target' if features else 'replay-target', 'debug', 'replay'), ''


_MEMO = {}


def search(prop, failure, repo, build_dir):
    key = (failure.get('function'), (failure.get('obligation') or '').split('[')[0], repo)
    if key not in _MEMO:
        _MEMO[key] = _search(prop, failure, repo, build_dir)
    return _MEMO[key]


def _search(prop, failure, repo, build_dir):
    fn = failure.get('function') or ''
    unit = (failure.get('obligation') or '').split('[')[0]
    names = ALIASES.get(fn, [fn]) + UNIT_SEARCHES.get(unit, [])
    names = [n for n in names if n]
    if not names:
        return {'found': False, 'text': 'no search registered'}
    exe, err = build(repo, build_dir)
    if exe is None:
        return {'found': False, 'text': 'replay build failed: ' + err}
    try:
        p = subprocess.run([exe] + names, capture_output=True, text=True, timeout=600)
    except subprocess.TimeoutExpired:
        return {'found': False, 'text': 'replay search timed out'}
    out = p.stdout
    wit = [l for l in out.split('\n') if l.startswith('WITNESS')]
    if wit:
        return {'found': True, 'text': '\n'.join(wit) + '\n(replayed by %s %s on the real crate built from %s)' % (exe, ' '.join(names), repo)}
    return {'found': False, 'text': 'searches run: ' + out.strip().replace('\n', '; ')}
