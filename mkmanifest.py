#!/usr/bin/env python3
"""Writes MANIFEST.json from the table below (kept in one place so it stays valid and consistent)."""
import json
import os

ROOT = os.path.dirname(os.path.abspath(__file__))

CLAIMED = {
    # id: (design_ref, level text, level_note, technique)
}
NA = {}


def claim(pid, ref, text, note, technique='contract-based deductive verification (Verus) of mechanically extracted real functions'):
    CLAIMED[pid] = (ref, text, note, technique)


def na(pid, reason):
    NA[pid] = reason


exec(open(os.path.join(ROOT, 'manifest_table.py')).read())

checks = []
for pid in sorted(CLAIMED):
    ref, text, note, technique = CLAIMED[pid]
    checks.append({
        'property_id': pid,
        'quick_cmd': 'python3 run.py check %s --tier quick' % pid,
        'thorough_cmd': 'python3 run.py check %s --tier thorough' % pid,
        'evidence_file': '/verif/evidence/%s.json' % pid,
        'replay_cmd_template': 'cat {path}',
        'engine': 'vx+kani',
        'level_claimed': {'category': 'proof', 'text': text, 'design_ref': ref},
        'level_note': note,
        'technique': technique,
    })
m = {
    'version': 1,
    'setup_cmd': 'python3 run.py setup',
    'hooks': {
        'guard': 'ejmahler_rustfft_verif',
        'enable': 'RUSTFLAGS="--cfg ejmahler_rustfft_verif" EJMAHLER_RUSTFFT_VERIF_DIR=/verif (cargo kani additionally sets cfg(kani)); the Verus engine needs no hook: it extracts from the working tree',
        'baseline_off_cmd': 'cd /repo && cargo test --workspace --no-fail-fast --offline',
        'source_commits': open(os.path.join(ROOT, 'hook_commits.txt')).read().split(),
        'add_only': True,
    },
    'engines': [
        {'name': 'vx', 'path': 'vx/', 'serves_properties': sorted(CLAIMED), 'kind_free_text': 'Verus on functions extracted mechanically from /repo on every run; contracts spliced from vx/units/*.vx'},
        {'name': 'kani', 'path': 'kani/', 'serves_properties': sorted(CLAIMED), 'kind_free_text': 'Kani harnesses compiled inside the real crate through the cfg hook (complete loop-free harnesses; bounded harnesses labelled as such)'},
        {'name': 'replay', 'path': 'replay/', 'serves_properties': sorted(CLAIMED), 'kind_free_text': 'native concrete search on the real crate for a failed obligation'},
    ],
    'checks': checks,
    'not_applicable': [{'property_id': k, 'reason': NA[k]} for k in sorted(NA)],
    'notes': 'exit 2 = INCONCLUSIVE (lost anchor / unsupported construct / tool error): never a VIOLATION. See DESIGN.md.',
}
with open(os.path.join(ROOT, 'MANIFEST.json'), 'w') as f:
    json.dump(m, f, indent=1)
print('wrote MANIFEST.json: %d checks, %d n/a' % (len(checks), len(NA)))
