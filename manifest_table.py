VX = 'contract-based deductive verification: Verus on functions extracted mechanically from /repo on every run'
claim('C01', 'DESIGN 4/C01, 10',
      'Partial: the integer/index skeleton is proved, the floating-point identity is only bounded-checked. Proved (Verus, all sizes): transpose_small moves in[x + y*w] to out[y + x*h] and nothing else; reverse_bits::<D> computes the digit reversal fold and stays below D^k; compute_logarithm returns the exact exponent; every scalar-planner recipe multiplies out to the requested length (with C04). Bounded stand-in for everything numerical (never counted as proved): FftPlannerScalar<f64> against the DFT definition on impulses for every n below the bound and structured lengths up to 131072, all four entry points; SSE and AVX planners against the portable transform.',
      'Not decided by any contract: butterfly kernels, twiddle multiplication, Rader/Bluestein convolution algebra, rounding; all SIMD kernels. bitreversed_transpose / factor_transpose are not under contract (array map with capturing closures).')
claim('C15', 'DESIGN 4/C15, 10',
      'Frame condition. Portable code: the input of process_immutable_with_scratch is a shared slice all the way down (helpers validate_and_zip / fft_helper_immut and every perform_fft_immut under contract take &[Complex<T>]; Verus ownership checking of the extracted text; no unsafe write path in the portable crate). SIMD code (raw pointers, outside both verifiers): bounded stand-in on this CPU - FftPlannerSse/FftPlannerAvx f32/f64, every length below the bound, 1..5 chunks and ill-shaped (panicking) calls, input bytes compared through volatile reads in an unoptimized build.',
      'SIMD half is bounded only (never counted as proved); portable half relies on rustc borrow checking plus an extractor scan.')
claim('C03', 'DESIGN 4/C03',
      'Verus mode S with R2 (get_unchecked -> indexed access, so the bound is the obligation) proves every unchecked access of transpose_small in bounds for all sizes, every slice split/index/copy in MixedRadix, MixedRadixSmall, GoodThomasAlgorithm(Small) perform_fft_* in bounds under the helper contract, and that the validate_and_* helpers never index outside the caller buffers.',
      'Not under contract (assumed): all AVX/SSE kernels, butterflies, Radix4/Radix3/RadixN/Rader/Bluestein/Dft bodies, GoodThomas reindex_* (bounds-checked indexing), external crate transpose.')
claim('C05', 'DESIGN 4/C05',
      'Structural clauses only: each portable wrapper constructor under contract is proved to advertise scratch no larger than the stated closed formula of its inner transforms\' needs (clauses tagged @C05).',
      'Operation-count clause (64 n log2 n) is not decided by any contract; global 12n+64 bound and no-naive-node clause pending the planner unit.')
claim('C06', 'DESIGN 4/C06',
      'FftCache: get(len, d) returns only an instance with s_len == len and s_dir == d; insert files an instance under its own (len, direction) and leaves all other entries unchanged; constructors under contract thread the direction unchanged (s_dir postconditions).',
      'The numerical round-trip identity forward(inverse(x)) == n*x is floating point: not decided.')
claim('C07', 'DESIGN 4/C07, 3.2',
      'Verus proves, for all lengths/chunk sizes/scratch lengths, that the six validate_and_* iterators and six fft_helper_* hand the chunk function exactly chunks 0..k in order, each alone with a scratch of exactly the advertised length, and that the final buffer is the concatenation of per-chunk results (relational postcondition over the whole buffer).',
      'Assumed: behaviour of the chunk functions themselves (each algorithm kernel; SSE two-chunk kernels treat halves independently); independence from stale scratch contents is C08. Verus models FnMut closures as not changing state across calls (the real closures capture &self only).')
claim('C08', 'DESIGN 4/C08',
      '(i) advertised suffices: each perform_fft_* of MixedRadix, MixedRadixSmall, GoodThomasAlgorithm, GoodThomasAlgorithmSmall verifies with scratch of exactly the advertised length against the inner transforms\' contracts, for arbitrary inner dyn Fft; (ii) longer is identical: helpers pass exactly scratch[..required].',
      '(iii) independence from scratch *contents* is not yet decided (planned bounded Kani taint harness). Other algorithms not yet under contract.')
claim('C09', 'DESIGN 4/C09, 2.2',
      'Mode P (panic = divergence) proves that a normal return from any fft_helper_* and from process_* of the transforms under contract implies len==0 or a well-shaped call, so every ill-shaped call panics; mode S proves well-shaped calls reach no panic in helpers and in the perform_fft_* under contract.',
      'Assumed: SIMD kernels and the algorithms not yet under contract are panic-free at exact lengths.')
claim('C10', 'DESIGN 4/C10',
      'FftCache well-formedness is an invariant over every history: new() establishes it, insert preserves it, get under it returns the requested (len, direction).',
      'Planner-level invariant pending the planner unit; AVX replan not covered.')
claim('C12', 'DESIGN 4/C12',
      'Each constructor under contract (MixedRadix, MixedRadixSmall, GoodThomasAlgorithm) is verified in mode S under its documented precondition for an arbitrary inner dyn Fft satisfying the trait contract, establishing the type invariant under which perform_fft_* are verified; so any nesting depth is covered by induction over the trait contract.',
      'GoodThomasAlgorithmSmall::new is an assumed contract (iterator chains); other constructors pending. Value-level correctness of composites not decided.')
claim('C04', 'DESIGN 4/C04',
      'Verus proves, for every length n < 2^32 and every history of the planner (any well-formed cache state), that FftPlannerScalar::plan_fft designs a recipe whose length is n, builds it without reaching any assert/unwrap/panic of the planner or of the constructors under contract, and returns an instance reporting length n and the requested direction. PrimeFactors::compute is proved to return the prime factorization (product, multiplicities, primality of every factor) for n < 2^48; design_radixn\'s four internal asserts and its exact divisions are discharged by exponent arithmetic over 2^a 3^b 5^c 7^d.',
      'Assumed contracts (listed in evidence): partition_factors, design_butterfly_product, the iterator one-liners has_factors_leq/gt/product_above/find_map/any, constructors of Dft/Radix4/RadixN/Rader/Bluestein/butterflies, A-sqrt (f32 sqrt limit, n < 2^48), A-size. Termination of the mutually recursive design functions is not proved. SSE/AVX planners not covered.')
claim('C13', 'DESIGN 4/C13-C14',
      'Gate clause only: on the extracted text of FftPlannerAvx::new and FftPlannerSse::new, with CPU feature detection and TypeId as uninterpreted inputs, Verus proves Ok <==> (avx && fma && T in {f32,f64}) resp. (sse4.1 && T in {f32,f64}) and that no panic is reachable; the four compiled-out stub planners return Err(()); FftPlanner::new picks the first available planner in the order AVX, SSE, Neon, WasmSimd, scalar and cannot panic.',
      'Not decided: numerical behaviour of transforms under each capability level / feature set. Assumed: the SSE butterfly-table block (chain/sort/windows duplicate assertion) does not panic; internals of the SIMD planners.')
claim('C14', 'DESIGN 4/C13-C14',
      'Gate clause only: both SIMD planner constructors decline (Err) any element type whose TypeId is neither f32 nor f64, for every such type (TypeId uninterpreted), so the automatic planner falls through to the portable planner.',
      'Not decided: exactness of the generic portable code over an exact field (value-level algebra).')
for pid, why in [
    ('C02', 'a quantitative floating-point rounding bound needs an error calculus neither Verus nor CBMC has'),
    ('C11', 'a property over thread interleavings: Kani has no threads, Verus would need the crate rewritten over permission types'),
    ('C16', 'API stability is decided by the type checker on a witness crate, not by a contract'),
]:
    na(pid, why)
