claim('C07', 'DESIGN 4/C07, 3.2',
      'Verus proves, for all lengths/chunk sizes/scratch lengths, that the six validate_and_* iterators and six fft_helper_* hand the chunk function exactly chunks 0..k in order, each alone with a scratch of exactly the advertised length, and that the final buffer is the concatenation of per-chunk results (relational postcondition over the whole buffer).',
      'Assumed: behaviour of the chunk functions themselves (each algorithm kernel; SSE two-chunk kernels treat halves independently); independence from stale scratch contents is C08.')
claim('C09', 'DESIGN 4/C09, 2.2',
      'Mode P (panic = divergence) proves that a normal return from any fft_helper_* implies len==0 or a well-shaped call, so every ill-shaped call panics; mode S proves well-shaped calls reach no panic in the helpers. Both on the extracted real text of array_utils.rs, fft_helper.rs, common.rs.',
      'Assumed: SIMD kernels are panic-free at exact lengths; per-impl conformance of the macro-generated process_* bodies is covered only for the units listed in evidence.')
for pid, why in [
    ('C01', 'not built yet (planned: index/permutation skeleton)'),
    ('C02', 'a quantitative floating-point rounding bound needs an error calculus neither Verus nor CBMC has'),
    ('C03', 'not built yet'), ('C04', 'not built yet'), ('C05', 'not built yet'), ('C06', 'not built yet'),
    ('C08', 'not built yet'), ('C10', 'not built yet'),
    ('C11', 'a property over thread interleavings: Kani has no threads, Verus would need the crate rewritten over permission types'),
    ('C12', 'not built yet'), ('C13', 'not built yet'), ('C14', 'not built yet'), ('C15', 'not built yet'),
    ('C16', 'API stability is decided by the type checker on a witness crate, not by a contract'),
]:
    na(pid, why)
