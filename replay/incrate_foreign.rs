// ---- replay/incrate_foreign.rs: C14 - element types other than f32 / f64 (bounded stand-in; compiled inside the real crate) ----------------
// (1) `Fp`: the exact prime-field element type written by the seeding sub-agent for seed C14-3 (seeded/C14-3/demo.rs), reused here
//     unchanged except for paths: GF(p) with p = 1 mod N, N = 2^6 3^2 5 7 37 41 43; `from_f64` maps cos / sin of rational angles with
//     denominator | N to the corresponding roots of unity, every other f64 to the exact image of its dyadic value.  With it a planned
//     transform of a length dividing N must equal the O(n^2) DFT over GF(p)[i] EXACTLY (Rader lengths 37, 41, 43 and their multiples
//     included; Bluestein lengths need other roots and are out of reach of this field).
// (2) `Wide`: an f64 carried in a 16-byte struct with a validity tag that every operation checks: an element that was not produced by
//     the type's own operations / constants (e.g. zeroed memory) is detected, and since its arithmetic IS f64 arithmetic, the portable
//     transform planned for it must be bit-identical to the one FftPlannerScalar<f64> computes.
// (3) the SIMD planners must decline both types - also after planners for f32 / f64 have been created in the same process.
use crate::num_traits::{FromPrimitive, Num, One, Signed, Zero};
use std::ops::{Add, Div, Mul, Neg, Rem, Sub};
use std::sync::OnceLock;
const N: u64 = 64 * 9 * 5 * 7 * 37 * 41 * 43;
const N_PRIME_FACTORS: [u64; 7] = [2, 3, 5, 7, 37, 41, 43];
/// Only angles 2 pi a / m with m <= MAX_DENOMINATOR are recognised by from_f64. That keeps distinct cosines at
/// least ~1e-11 apart, far more than the rounding error of an f64 cos()/sin().
/// (sin(2 pi k / n) is the cosine of an angle with denominator up to 4n, so this covers every n <= 256.)
const MAX_DENOMINATOR: u64 = 1024;

fn mulmod(a: u64, b: u64, p: u64) -> u64 {
    ((a as u128 * b as u128) % p as u128) as u64
}
fn powmod(mut base: u64, mut exp: u64, p: u64) -> u64 {
    let mut result = 1u64;
    base %= p;
    while exp > 0 {
        if exp & 1 == 1 {
            result = mulmod(result, base, p);
        }
        base = mulmod(base, base, p);
        exp >>= 1;
    }
    result
}
fn is_prime(n: u64) -> bool {
    if n < 2 {
        return false;
    }
    for &q in &[2u64, 3, 5, 7, 11, 13, 17, 19, 23, 29, 31, 37] {
        if n % q == 0 {
            return n == q;
        }
    }
    let (mut d, mut r) = (n - 1, 0);
    while d % 2 == 0 {
        d /= 2;
        r += 1;
    }
    // these bases are a deterministic Miller-Rabin test for all n < 2^64
    'witness: for &a in &[2u64, 3, 5, 7, 11, 13, 17, 19, 23, 29, 31, 37] {
        let mut x = powmod(a, d, n);
        if x == 1 || x == n - 1 {
            continue;
        }
        for _ in 0..r - 1 {
            x = mulmod(x, x, n);
            if x == n - 1 {
                continue 'witness;
            }
        }
        return false;
    }
    true
}

struct Field {
    p: u64,
    omega: u64, // element of multiplicative order exactly N
    inv2: u64,
    denominators: Vec<u64>, // divisors of N that are <= MAX_DENOMINATOR, ascending
}
fn field() -> &'static Field {
    static FIELD: OnceLock<Field> = OnceLock::new();
    FIELD.get_or_init(|| {
        // smallest prime of the form k * N + 1
        let mut k = 1u64;
        let p = loop {
            let candidate = k * N + 1;
            if is_prime(candidate) {
                break candidate;
            }
            k += 1;
        };
        // find an element of order exactly N
        let mut g = 2u64;
        let omega = loop {
            let candidate = powmod(g, (p - 1) / N, p);
            if N_PRIME_FACTORS
                .iter()
                .all(|r| powmod(candidate, N / r, p) != 1)
            {
                break candidate;
            }
            g += 1;
        };
        assert_eq!(powmod(omega, N, p), 1);
        let inv2 = (p + 1) / 2;
        let denominators = (1..=MAX_DENOMINATOR).filter(|m| N % m == 0).collect();
        Field {
            p,
            omega,
            inv2,
            denominators,
        }
    })
}

#[derive(Copy, Clone, Debug, PartialEq, Eq)]
pub struct Fp(pub u64);

/// The field's stand-in for cos(2 pi k / N)
fn field_cos(k: u64) -> Fp {
    let f = field();
    let k = k % N;
    let a = powmod(f.omega, k, f.p);
    let b = powmod(f.omega, (N - k) % N, f.p);
    Fp(mulmod((a + b) % f.p, f.inv2, f.p))
}
/// The field's stand-in for sin(2 pi k / N)
fn field_sin(k: u64) -> Fp {
    field_cos((k % N + N - N / 4) % N)
}
/// The field's stand-in for exp(+- 2 pi i * index / len)
fn field_twiddle(index: usize, len: usize, direction: FftDirection) -> Complex<Fp> {
    assert_eq!(N % len as u64, 0);
    let step = N / len as u64;
    let k = (index % len) as u64 * step;
    let k = match direction {
        FftDirection::Forward => (N - k) % N,
        FftDirection::Inverse => k,
    };
    Complex::new(field_cos(k), field_sin(k))
}

impl Add for Fp {
    type Output = Fp;
    fn add(self, rhs: Fp) -> Fp {
        let p = field().p;
        Fp(((self.0 as u128 + rhs.0 as u128) % p as u128) as u64)
    }
}
impl Sub for Fp {
    type Output = Fp;
    fn sub(self, rhs: Fp) -> Fp {
        let p = field().p;
        Fp(((self.0 as u128 + p as u128 - rhs.0 as u128) % p as u128) as u64)
    }
}
impl Mul for Fp {
    type Output = Fp;
    fn mul(self, rhs: Fp) -> Fp {
        Fp(mulmod(self.0, rhs.0, field().p))
    }
}
impl Div for Fp {
    type Output = Fp;
    fn div(self, rhs: Fp) -> Fp {
        let p = field().p;
        assert!(rhs.0 != 0, "division by zero in GF(p)");
        Fp(mulmod(self.0, powmod(rhs.0, p - 2, p), p))
    }
}
impl Rem for Fp {
    type Output = Fp;
    fn rem(self, _rhs: Fp) -> Fp {
        // division in a field is always exact
        Fp(0)
    }
}
impl Neg for Fp {
    type Output = Fp;
    fn neg(self) -> Fp {
        Fp(0) - self
    }
}
impl Zero for Fp {
    fn zero() -> Self {
        Fp(0)
    }
    fn is_zero(&self) -> bool {
        self.0 == 0
    }
}
impl One for Fp {
    fn one() -> Self {
        Fp(1)
    }
}
impl Num for Fp {
    type FromStrRadixErr = ();
    fn from_str_radix(_s: &str, _radix: u32) -> Result<Self, ()> {
        Err(())
    }
}
// A finite field has no order; these are only here because the `FftNum` bound asks for `Signed`.
impl Signed for Fp {
    fn abs(&self) -> Self {
        *self
    }
    fn abs_sub(&self, other: &Self) -> Self {
        *self - *other
    }
    fn signum(&self) -> Self {
        if self.0 == 0 {
            Fp(0)
        } else {
            Fp(1)
        }
    }
    fn is_positive(&self) -> bool {
        self.0 != 0
    }
    fn is_negative(&self) -> bool {
        false
    }
}
impl FromPrimitive for Fp {
    fn from_i64(n: i64) -> Option<Self> {
        let p = field().p as i128;
        Some(Fp((((n as i128) % p + p) % p) as u64))
    }
    fn from_u64(n: u64) -> Option<Self> {
        Some(Fp(n % field().p))
    }
    fn from_f64(x: f64) -> Option<Self> {
        if !x.is_finite() {
            return None;
        }
        if x == x.trunc() && x.abs() < 9.0e15 {
            return Self::from_i64(x as i64);
        }
        let f = field();
        // is x the cosine of a rational angle 2 pi a / m, with m | N ?
        if x.abs() <= 1.0 {
            let turns = x.acos() / (2.0 * std::f64::consts::PI); // in [0, 0.5]
            for &m in f.denominators.iter() {
                let a = (turns * m as f64).round();
                let candidate = (2.0 * std::f64::consts::PI * a / m as f64).cos();
                if (candidate - x).abs() < 1e-13 {
                    return Some(field_cos(a as u64 * (N / m)));
                }
            }
        }
        // otherwise: the exact image of the dyadic rational that this f64 is: (+-) mantissa * 2^exponent
        let bits = x.to_bits();
        let negative = (bits >> 63) == 1;
        let biased_exponent = ((bits >> 52) & 0x7ff) as i64;
        let fraction = bits & ((1u64 << 52) - 1);
        let (mantissa, exponent) = if biased_exponent == 0 {
            (fraction, -1074i64)
        } else {
            (fraction | (1u64 << 52), biased_exponent - 1075)
        };
        let two_pow = if exponent >= 0 {
            powmod(2, exponent as u64, f.p)
        } else {
            powmod(powmod(2, f.p - 2, f.p), (-exponent) as u64, f.p)
        };
        let magnitude = Fp(mulmod(mantissa % f.p, two_pow, f.p));
        Some(if negative { -magnitude } else { magnitude })
    }
}

fn exact_dft(input: &[Complex<Fp>], direction: FftDirection) -> Vec<Complex<Fp>> {
    let n = input.len();
    let twiddles: Vec<Complex<Fp>> = (0..n).map(|t| field_twiddle(t, n, direction)).collect();
    (0..n)
        .map(|k| {
            let mut acc = Complex::new(Fp(0), Fp(0));
            for (j, x) in input.iter().enumerate() {
                acc = acc + *x * twiddles[(j * k) % n];
            }
            acc
        })
        .collect()
}

fn random_signal(len: usize, seed: u64) -> Vec<Complex<Fp>> {
    let p = field().p;
    let mut state = seed ^ (len as u64).wrapping_mul(0x9E37_79B9_7F4A_7C15);
    let mut next = move || {
        // splitmix64
        state = state.wrapping_add(0x9E37_79B9_7F4A_7C15);
        let mut z = state;
        z = (z ^ (z >> 30)).wrapping_mul(0xBF58_476D_1CE4_E5B9);
        z = (z ^ (z >> 27)).wrapping_mul(0x94D0_49BB_1331_11EB);
        Fp((z ^ (z >> 31)) % p)
    };
    (0..len).map(|_| Complex::new(next(), next())).collect()
}


const MAGIC: u64 = 0x5741_4c49_4445_5f4f;
#[derive(Copy, Clone, Debug)]
pub struct Wide { v: f64, tag: u64 }
impl PartialEq for Wide { fn eq(&self, o: &Wide) -> bool { self.ok().v == o.ok().v } }
impl PartialOrd for Wide { fn partial_cmp(&self, o: &Wide) -> Option<std::cmp::Ordering> { self.ok().v.partial_cmp(&o.ok().v) } }
impl Wide {
    fn mk(v: f64) -> Wide { Wide { v, tag: MAGIC } }
    fn ok(&self) -> &Wide { assert!(self.tag == MAGIC, "an element that no operation or constant of the element type produced (tag {:#x}) reached the arithmetic", self.tag); self }
}
impl Add for Wide { type Output = Wide; fn add(self, o: Wide) -> Wide { Wide::mk(self.ok().v + o.ok().v) } }
impl Sub for Wide { type Output = Wide; fn sub(self, o: Wide) -> Wide { Wide::mk(self.ok().v - o.ok().v) } }
impl Mul for Wide { type Output = Wide; fn mul(self, o: Wide) -> Wide { Wide::mk(self.ok().v * o.ok().v) } }
impl Div for Wide { type Output = Wide; fn div(self, o: Wide) -> Wide { Wide::mk(self.ok().v / o.ok().v) } }
impl Rem for Wide { type Output = Wide; fn rem(self, o: Wide) -> Wide { Wide::mk(self.ok().v % o.ok().v) } }
impl Neg for Wide { type Output = Wide; fn neg(self) -> Wide { Wide::mk(-self.ok().v) } }
impl Zero for Wide { fn zero() -> Wide { Wide::mk(0.0) } fn is_zero(&self) -> bool { self.ok().v == 0.0 } }
impl One for Wide { fn one() -> Wide { Wide::mk(1.0) } }
impl Num for Wide { type FromStrRadixErr = (); fn from_str_radix(_: &str, _: u32) -> Result<Wide, ()> { Err(()) } }
impl Signed for Wide {
    fn abs(&self) -> Wide { Wide::mk(self.ok().v.abs()) }
    fn abs_sub(&self, o: &Wide) -> Wide { Wide::mk((self.ok().v - o.ok().v).max(0.0)) }
    fn signum(&self) -> Wide { Wide::mk(self.ok().v.signum()) }
    fn is_positive(&self) -> bool { self.ok().v > 0.0 }
    fn is_negative(&self) -> bool { self.ok().v < 0.0 }
}
impl FromPrimitive for Wide {
    fn from_i64(n: i64) -> Option<Wide> { Some(Wide::mk(n as f64)) }
    fn from_u64(n: u64) -> Option<Wide> { Some(Wide::mk(n as f64)) }
    fn from_f64(n: f64) -> Option<Wide> { Some(Wide::mk(n)) }
    fn from_f32(n: f32) -> Option<Wide> { Some(Wide::mk(n as f64)) }
}

fn model_sound() -> bool {
    for &k in &[0u64, 1, 5, N / 8, N / 6, N / 4, N / 3, N / 2, N - 1] {
        if field_cos(k) * field_cos(k) + field_sin(k) * field_sin(k) != Fp(1) { return false; }
    }
    let angle = -2.0 * std::f64::consts::PI / 37.0 * 5.0;
    field_cos(0) == Fp(1) && field_sin(N / 4) == Fp(1) && field_cos(N / 2) == -Fp(1) && field_cos(N / 6) + field_cos(N / 6) == Fp(1)
        && field_cos(N / 8) == field_sin(N / 8) && Fp::from_f64(0.5f64.sqrt()).unwrap() == field_cos(N / 8)
        && Fp::from_f64(angle.cos()).unwrap() == field_cos(N - 5 * (N / 37)) && Fp::from_f64(angle.sin()).unwrap() == field_sin(N - 5 * (N / 37))
        && Fp::from_f64(0.25).unwrap() * Fp(4) == Fp(1) && Fp::one() / Fp::from_usize(36).unwrap() * Fp(36) == Fp(1)
}

fn check_exact(desc: &str, fft: &dyn Fft<Fp>) -> Option<String> {
    let len = fft.len();
    let direction = fft.fft_direction();
    let input = random_signal(len, 0xC0FF_EE00_1234_5678);
    let expected = exact_dft(&input, direction);
    let mut buffer = input.clone();
    fft.process(&mut buffer);
    if buffer != expected { return Some(format!("{desc}: process() over the exact prime field GF(p)[i] is not the DFT of the (random) input - the transform uses something other than the element type's ring operations and constants converted from f64 / usize")); }
    let mut output = vec![Complex::new(Fp(0), Fp(0)); len];
    let mut scratch = vec![Complex::new(Fp(0), Fp(0)); fft.get_immutable_scratch_len()];
    fft.process_immutable_with_scratch(&input, &mut output, &mut scratch);
    if output != expected { return Some(format!("{desc}: process_immutable_with_scratch() over the exact prime field GF(p)[i] is not the DFT of the input")); }
    let mut o2 = vec![Complex::new(Fp(0), Fp(0)); len];
    let mut s2 = vec![Complex::new(Fp(0), Fp(0)); fft.get_outofplace_scratch_len()];
    let mut i2 = input.clone();
    fft.process_outofplace_with_scratch(&mut i2, &mut o2, &mut s2);
    if o2 != expected { return Some(format!("{desc}: process_outofplace_with_scratch() over the exact prime field GF(p)[i] is not the DFT of the input")); }
    if len <= 16 {
        for t in 0..len {
            let mut buffer = vec![Complex::new(Fp(0), Fp(0)); len];
            buffer[t] = Complex::new(Fp(1), Fp(0));
            fft.process(&mut buffer);
            for k in 0..len { if buffer[k] != field_twiddle(t * k, len, direction) { return Some(format!("{desc}: impulse {t}: output[{k}] is not the twiddle w^({t}*{k}) of the exact field")); } }
        }
    }
    None
}

pub fn search(which: &str) -> Option<String> {
    let limit: usize = which.rsplit(':').next().and_then(|x| x.parse().ok()).unwrap_or(96);
    if !model_sound() { println!("MODEL-SELF-CHECK-FAILED foreign: the prime-field model of cos/sin is not sound on this machine (not a statement about RustFFT)"); std::process::exit(0); }
    // (3) gates, after planners for the native types exist in this process
    let _ = quiet(|| { let _ = crate::FftPlanner::<f32>::new(); let _ = crate::FftPlanner::<f64>::new(); let _ = crate::FftPlannerAvx::<f32>::new(); let _ = crate::FftPlannerAvx::<f64>::new(); let _ = crate::FftPlannerSse::<f32>::new(); let _ = crate::FftPlannerSse::<f64>::new(); });
    macro_rules! declines { ($planner:ident, $t:ty) => {{
        eprintln!("CASE {}::<{}>::new() after planners for f32 and f64 were created", stringify!($planner), stringify!($t));
        match quiet(|| crate::$planner::<$t>::new().is_err()) {
            Err(e) => return Some(format!("{}::<{}>::new() (after planners for f32 / f64 were created in this process) panicked instead of declining: {}", stringify!($planner), stringify!($t), panic_msg(e))),
            Ok(false) => return Some(format!("{}::<{}>::new() (after planners for f32 / f64 were created in this process) returned Ok for an element type that is neither f32 nor f64", stringify!($planner), stringify!($t))),
            Ok(true) => {}
        }
    }}; }
    declines!(FftPlannerAvx, Fp); declines!(FftPlannerSse, Fp); declines!(FftPlannerAvx, Wide); declines!(FftPlannerSse, Wide);
    // (1) exact arithmetic
    let lens = [1usize, 2, 3, 4, 5, 6, 7, 8, 9, 10, 12, 14, 15, 16, 18, 20, 21, 24, 28, 30, 32, 35, 36, 37, 40, 41, 42, 43, 45, 48, 56, 60, 63, 64, 72, 74, 82, 86, 90, 96, 111, 120, 123, 126, 129, 144, 148, 160, 180, 185, 192];
    for &len in lens.iter().filter(|&&l| l <= limit.max(48)) {
        for direction in [FftDirection::Forward, FftDirection::Inverse] {
            for auto in [true, false] {
                let desc = format!("{}::<Fp>.plan_fft({len}, {direction:?})", if auto { "FftPlanner" } else { "FftPlannerScalar" });
                eprintln!("CASE {desc}");
                let r = quiet(|| { let f: Arc<dyn Fft<Fp>> = if auto { crate::FftPlanner::<Fp>::new().plan_fft(len, direction) } else { crate::FftPlannerScalar::<Fp>::new().plan_fft(len, direction) }; check_exact(&desc, &*f) });
                match r { Err(e) => return Some(format!("{desc}: planning or running the transform for the exact element type panicked: {}", panic_msg(e))), Ok(Some(x)) => return Some(x), Ok(None) => {} }
            }
        }
    }
    // (2) an f64 in a differently sized, tag-checked struct: bit-identical to the portable f64 transform
    for n in 0..limit {
        for direction in [FftDirection::Forward, FftDirection::Inverse] {
            let desc = format!("FftPlanner::<Wide>.plan_fft({n}, {direction:?})");
            eprintln!("CASE {desc}");
            let r = quiet(|| -> Option<String> {
                let f = crate::FftPlanner::<Wide>::new().plan_fft(n, direction);
                let g = crate::FftPlannerScalar::<f64>::new().plan_fft(n, direction);
                if f.len() != n || f.fft_direction() != direction { return Some(format!("{desc}: len {} direction {:?}", f.len(), f.fft_direction())); }
                let x: Vec<Complex<f64>> = (0..n).map(|i| Complex::new(((i * 7 + 3) % 11) as f64 - 5.0, ((i * 5 + 1) % 13) as f64 * 0.25)).collect();
                let xw: Vec<Complex<Wide>> = x.iter().map(|c| Complex::new(Wide::mk(c.re), Wide::mk(c.im))).collect();
                let mut a = xw.clone(); let mut sa = vec![Complex::new(Wide::mk(0.0), Wide::mk(0.0)); f.get_inplace_scratch_len()];
                f.process_with_scratch(&mut a, &mut sa);
                let mut b = x.clone(); let mut sb = vec![Complex::new(0.0, 0.0); g.get_inplace_scratch_len()];
                g.process_with_scratch(&mut b, &mut sb);
                for k in 0..n { if a[k].re.ok().v.to_bits() != b[k].re.to_bits() || a[k].im.ok().v.to_bits() != b[k].im.to_bits() { return Some(format!("{desc}.process_with_scratch: output[{k}] differs bit for bit from the portable f64 transform although the element type's arithmetic is f64 arithmetic (the transform does not only use the type's own operations)")); } }
                let mut o = vec![Complex::new(Wide::mk(0.0), Wide::mk(0.0)); n]; let mut so = vec![Complex::new(Wide::mk(0.0), Wide::mk(0.0)); f.get_immutable_scratch_len()];
                f.process_immutable_with_scratch(&xw, &mut o, &mut so);
                for k in 0..n { if o[k].re.ok().v.to_bits() != b[k].re.to_bits() || o[k].im.ok().v.to_bits() != b[k].im.to_bits() { return Some(format!("{desc}.process_immutable_with_scratch: output[{k}] differs bit for bit from the portable f64 transform")); } }
                None
            });
            match r { Err(e) => return Some(format!("{desc}: panicked: {}", panic_msg(e))), Ok(Some(x)) => return Some(x), Ok(None) => {} }
        }
    }
    None
}
