// Native replay routines, compiled *inside* the real crate (src/lib.rs hook `verif_replay`), so that private
// items are reachable without copies.  Each search enumerates small concrete inputs on the real code and
// returns the first one that contradicts the executable reading of the contract.

use crate::array_utils;
use crate::fft_helper;
use std::panic::{catch_unwind, AssertUnwindSafe};

fn quiet<R>(f: impl FnOnce() -> R) -> std::thread::Result<R> {
    let prev = std::panic::take_hook();
    std::panic::set_hook(Box::new(|_| {}));
    let r = catch_unwind(AssertUnwindSafe(f));
    std::panic::set_hook(prev);
    r
}

// data element = (chunk-call stamp); the chunk function writes 100*(call index+1) + old into every element it is handed
fn expect_iter(len: usize, c: usize) -> Vec<u32> {
    let mut v: Vec<u32> = (0..len as u32).collect();
    let full = len / c;
    for i in 0..full {
        for j in 0..c {
            v[i * c + j] += 100 * (i as u32 + 1);
        }
    }
    v
}

pub fn search(which: &str) -> Option<String> {
    const L: usize = 13;
    match which {
        "validate_and_iter" | "fft_helper_inplace" => {
            for len in 0..L { for c in 0..6usize { for sl in 0..4usize { for req in 0..4usize {
                let mut buf: Vec<u32> = (0..len as u32).collect();
                let mut scratch = vec![0u32; sl];
                let mut calls: Vec<(usize, usize, Vec<u32>)> = vec![];
                let helper = which == "fft_helper_inplace";
                if c == 0 && !helper { continue; }
                let r = quiet(|| {
                    let mut idx = 0u32;
                    let f = |h: &mut [u32], s: &mut [u32]| {
                        calls.push((h.len(), s.len(), h.to_vec()));
                        idx += 1;
                        for x in h.iter_mut() { *x += 100 * idx; }
                    };
                    if helper { fft_helper::fft_helper_inplace(&mut buf, &mut scratch, c, req, f); Ok(()) }
                    else { array_utils::validate_and_iter(&mut buf, &mut scratch, c, req, f) }
                });
                let well = c == 0 || (sl >= req && len % c == 0);
                let desc = format!("{}(buffer.len()={}, scratch.len()={}, chunk_size={}, required_scratch={})", which, len, sl, c, req);
                match r {
                    Err(_) => { if helper && well { return Some(format!("{desc}: well-shaped call panicked")); }
                                if !helper { return Some(format!("{desc}: validator panicked")); } }
                    Ok(res) => {
                        if helper && !well { return Some(format!("{desc}: ill-shaped call returned normally")); }
                        if !helper && (res.is_ok() != well) { return Some(format!("{desc}: returned {:?}, contract says {}", res, if well {"Ok"} else {"Err"})); }
                        if well && c > 0 {
                            if buf != expect_iter(len, c) { return Some(format!("{desc}: final buffer {:?} != expected {:?}", buf, expect_iter(len, c))); }
                            for (i, (hl, sl2, h)) in calls.iter().enumerate() {
                                if *hl != c || *sl2 != req { return Some(format!("{desc}: call {} saw chunk len {} scratch len {}", i, hl, sl2)); }
                                let exp: Vec<u32> = (i * c..(i + 1) * c).map(|x| x as u32).collect();
                                if *h != exp { return Some(format!("{desc}: call {} saw data {:?}, expected its own chunk {:?}", i, h, exp)); }
                            }
                            if calls.len() != len / c { return Some(format!("{desc}: {} calls, expected {}", calls.len(), len / c)); }
                        }
                        if c == 0 && !calls.is_empty() { return Some(format!("{desc}: chunk fn called for length-0 transform")); }
                    }
                }
            }}}}
            None
        }
        "validate_and_iter_unroll2x" | "fft_helper_inplace_unroll2x" => {
            for len in 0..L { for c in 0..6usize {
                let helper = which == "fft_helper_inplace_unroll2x";
                if c == 0 && !helper { continue; }
                let mut buf: Vec<u32> = (0..len as u32).collect();
                let mut calls: Vec<(usize, Vec<u32>)> = vec![];
                let r = quiet(|| {
                    let calls = std::cell::RefCell::new(&mut calls);
                    let f2 = |h: &mut [u32]| { calls.borrow_mut().push((2, h.to_vec())); for x in h.iter_mut() { *x += 1000; } };
                    let f1 = |h: &mut [u32]| { calls.borrow_mut().push((1, h.to_vec())); for x in h.iter_mut() { *x += 1000; } };
                    if helper { fft_helper::fft_helper_inplace_unroll2x(&mut buf, c, f2, f1); Ok(()) }
                    else { array_utils::validate_and_iter_unroll2x(&mut buf, c, f2, f1) }
                });
                let well = c == 0 || len % c == 0;
                let desc = format!("{}(buffer.len()={}, chunk_size={})", which, len, c);
                match r {
                    Err(_) => { if helper && well { return Some(format!("{desc}: well-shaped call panicked")); }
                                if !helper { return Some(format!("{desc}: validator panicked")); } }
                    Ok(res) => {
                        if helper && !well { return Some(format!("{desc}: ill-shaped call returned normally")); }
                        if !helper && (res.is_ok() != well) { return Some(format!("{desc}: returned {:?}, contract says {}", res, if well {"Ok"} else {"Err"})); }
                        if well && c > 0 {
                            let exp: Vec<u32> = (0..len as u32).map(|x| x + 1000).collect();
                            if buf != exp { return Some(format!("{desc}: final buffer {:?}: some element not transformed exactly once", buf)); }
                            let mut pos = 0usize;
                            for (i, (k, h)) in calls.iter().enumerate() {
                                let e: Vec<u32> = (pos..pos + k * c).map(|x| x as u32).collect();
                                if *h != e { return Some(format!("{desc}: call {} ({}x) saw {:?}, expected window {:?}", i, k, h, e)); }
                                pos += k * c;
                            }
                            let n2 = len / (2 * c);
                            if calls.iter().filter(|(k, _)| *k == 2).count() != n2 { return Some(format!("{desc}: wrong number of 2x calls")); }
                        }
                    }
                }
            }}
            None
        }
        "validate_and_zip" | "fft_helper_immut" | "validate_and_zip_mut" | "fft_helper_outofplace" => {
            let helper = which.starts_with("fft_helper");
            let mutin = which == "validate_and_zip_mut" || which == "fft_helper_outofplace";
            for len in 0..9usize { for olen in 0..9usize { for c in 0..5usize { for sl in 0..3usize { for req in 0..3usize {
                if c == 0 && !helper { continue; }
                let mut inp: Vec<u32> = (0..len as u32).collect();
                let mut out: Vec<u32> = (0..olen as u32).map(|x| 500 + x).collect();
                let mut scratch = vec![0u32; sl];
                let mut calls: Vec<(Vec<u32>, Vec<u32>, usize)> = vec![];
                let r = quiet(|| {
                    if mutin {
                        let f = |a: &mut [u32], h: &mut [u32], s: &mut [u32]| { calls.push((a.to_vec(), h.to_vec(), s.len())); for (x, y) in h.iter_mut().zip(a.iter()) { *x = *y + 1000; } for y in a.iter_mut() { *y += 7; } };
                        if helper { fft_helper::fft_helper_outofplace(&mut inp, &mut out, &mut scratch, c, req, f); Ok(()) }
                        else { array_utils::validate_and_zip_mut(&mut inp, &mut out, &mut scratch, c, req, f) }
                    } else {
                        let f = |a: &[u32], h: &mut [u32], s: &mut [u32]| { calls.push((a.to_vec(), h.to_vec(), s.len())); for (x, y) in h.iter_mut().zip(a.iter()) { *x = *y + 1000; } };
                        if helper { fft_helper::fft_helper_immut(&inp, &mut out, &mut scratch, c, req, f); Ok(()) }
                        else { array_utils::validate_and_zip(&inp, &mut out, &mut scratch, c, req, f) }
                    }
                });
                let well = c == 0 || (sl >= req && len == olen && len % c == 0);
                let desc = format!("{}(input.len()={}, output.len()={}, scratch.len()={}, chunk_size={}, required_scratch={})", which, len, olen, sl, c, req);
                match r {
                    Err(_) => { if helper && well { return Some(format!("{desc}: well-shaped call panicked")); }
                                if !helper { return Some(format!("{desc}: validator panicked")); } }
                    Ok(res) => {
                        if helper && !well { return Some(format!("{desc}: ill-shaped call returned normally")); }
                        if !helper && (res.is_ok() != well) { return Some(format!("{desc}: returned {:?}, contract says {}", res, if well {"Ok"} else {"Err"})); }
                        if well && c > 0 {
                            let exp: Vec<u32> = (0..len as u32).map(|x| x + 1000).collect();
                            if out != exp { return Some(format!("{desc}: output {:?} != per-chunk results {:?}", out, exp)); }
                            if calls.len() != len / c { return Some(format!("{desc}: {} calls, expected {}", calls.len(), len / c)); }
                            for (i, (a, h, s)) in calls.iter().enumerate() {
                                let ea: Vec<u32> = (i * c..(i + 1) * c).map(|x| x as u32).collect();
                                let eh: Vec<u32> = (i * c..(i + 1) * c).map(|x| 500 + x as u32).collect();
                                if *a != ea || *h != eh || *s != req { return Some(format!("{desc}: call {} saw in {:?} out {:?} scratch len {}", i, a, h, s)); }
                            }
                        }
                        if !mutin { let e: Vec<u32> = (0..len as u32).collect(); if inp != e { return Some(format!("{desc}: input modified")); } }
                    }
                }
            }}}}}
            None
        }
        "validate_and_zip_unroll2x" | "fft_helper_immut_unroll2x" | "validate_and_zip_mut_unroll2x" | "fft_helper_outofplace_unroll2x" => {
            let helper = which.starts_with("fft_helper");
            let mutin = which.contains("zip_mut") || which.contains("outofplace");
            for len in 0..L { for olen in 0..L { for c in 0..5usize {
                if c == 0 && !helper { continue; }
                let mut inp: Vec<u32> = (0..len as u32).collect();
                let mut out: Vec<u32> = (0..olen as u32).map(|x| 500 + x).collect();
                let calls = std::cell::RefCell::new(Vec::<(usize, Vec<u32>, Vec<u32>)>::new());
                let r = quiet(|| {
                    if mutin {
                        let f2 = |a: &mut [u32], h: &mut [u32]| { calls.borrow_mut().push((2, a.to_vec(), h.to_vec())); for (x, y) in h.iter_mut().zip(a.iter()) { *x = *y + 1000; } };
                        let f1 = |a: &mut [u32], h: &mut [u32]| { calls.borrow_mut().push((1, a.to_vec(), h.to_vec())); for (x, y) in h.iter_mut().zip(a.iter()) { *x = *y + 1000; } };
                        if helper { fft_helper::fft_helper_outofplace_unroll2x(&mut inp, &mut out, c, f2, f1); Ok(()) }
                        else { array_utils::validate_and_zip_mut_unroll2x(&mut inp, &mut out, c, f2, f1) }
                    } else {
                        let f2 = |a: &[u32], h: &mut [u32]| { calls.borrow_mut().push((2, a.to_vec(), h.to_vec())); for (x, y) in h.iter_mut().zip(a.iter()) { *x = *y + 1000; } };
                        let f1 = |a: &[u32], h: &mut [u32]| { calls.borrow_mut().push((1, a.to_vec(), h.to_vec())); for (x, y) in h.iter_mut().zip(a.iter()) { *x = *y + 1000; } };
                        if helper { fft_helper::fft_helper_immut_unroll2x(&inp, &mut out, c, f2, f1); Ok(()) }
                        else { array_utils::validate_and_zip_unroll2x(&inp, &mut out, c, f2, f1) }
                    }
                });
                let well = c == 0 || (len == olen && len % c == 0);
                let desc = format!("{}(input.len()={}, output.len()={}, chunk_size={})", which, len, olen, c);
                match r {
                    Err(_) => { if helper && well { return Some(format!("{desc}: well-shaped call panicked")); }
                                if !helper { return Some(format!("{desc}: validator panicked")); } }
                    Ok(res) => {
                        if helper && !well { return Some(format!("{desc}: ill-shaped call returned normally")); }
                        if !helper && (res.is_ok() != well) { return Some(format!("{desc}: returned {:?}, contract says {}", res, if well {"Ok"} else {"Err"})); }
                        if well && c > 0 {
                            let exp: Vec<u32> = (0..len as u32).map(|x| x + 1000).collect();
                            if out != exp { return Some(format!("{desc}: output {:?} != per-window results {:?}", out, exp)); }
                            let mut pos = 0usize;
                            for (i, (k, a, h)) in calls.borrow().iter().enumerate() {
                                let ea: Vec<u32> = (pos..pos + k * c).map(|x| x as u32).collect();
                                if *a != ea { return Some(format!("{desc}: call {} ({}x) saw input {:?}, expected {:?}", i, k, a, ea)); }
                                pos += k * c;
                            }
                        }
                    }
                }
            }}}
            None
        }
        "fft_error_inplace" => {
            for e in 1..5usize { for a in 0..10usize { for es in 0..3usize { for s in 0..3usize {
                let well = a >= e && a % e == 0 && s >= es;
                let r = quiet(|| crate::common::fft_error_inplace(e, a, es, s));
                if r.is_ok() && !well { return Some(format!("fft_error_inplace(expected_len={e}, actual_len={a}, expected_scratch={es}, actual_scratch={s}) returned normally on an ill-shaped call")); }
            }}}}
            None
        }
        "fft_error_outofplace" | "fft_error_immut" => {
            for e in 1..5usize { for a in 0..10usize { for o in 0..10usize { for es in 0..3usize { for s in 0..3usize {
                let well = a == o && a >= e && a % e == 0 && s >= es;
                let r = quiet(|| if which == "fft_error_immut" { crate::common::fft_error_immut(e, a, o, es, s) } else { crate::common::fft_error_outofplace(e, a, o, es, s) });
                if r.is_ok() && !well { return Some(format!("{which}(expected_len={e}, actual_input={a}, actual_output={o}, expected_scratch={es}, actual_scratch={s}) returned normally on an ill-shaped call")); }
            }}}}}
            None
        }
        _ => extra::search(which),
    }
}

pub fn known(which: &str) -> bool {
    matches!(which, "validate_and_iter" | "fft_helper_inplace" | "validate_and_iter_unroll2x" | "fft_helper_inplace_unroll2x"
        | "validate_and_zip" | "fft_helper_immut" | "validate_and_zip_mut" | "fft_helper_outofplace"
        | "validate_and_zip_unroll2x" | "fft_helper_immut_unroll2x" | "validate_and_zip_mut_unroll2x" | "fft_helper_outofplace_unroll2x"
        | "fft_error_inplace" | "fft_error_outofplace" | "fft_error_immut") || extra::known(which)
}

mod extra {
    include!(concat!(env!("EJMAHLER_RUSTFFT_VERIF_DIR"), "/replay/incrate_extra.rs"));
}
