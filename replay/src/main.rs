// replay driver: `replay <search-name>...` -> prints `WITNESS <name>: <description>` for the first failing input of each search
fn main() {
    let mut found = false;
    for w in std::env::args().skip(1) {
        if !rustfft::verif_replay::known(&w) {
            println!("NOSEARCH {}", w);
            continue;
        }
        match rustfft::verif_replay::search(&w) {
            Some(d) => { println!("WITNESS {}: {}", w, d); found = true; }
            None => println!("NOWITNESS {}", w),
        }
    }
    std::process::exit(if found { 1 } else { 0 });
}
