// Bounded native checks and replay searches on the real crate (compiled in-crate through the verif_replay hook).
// Each returns the first concrete input that contradicts the executable reading of a contract.  They are the
// *bounded stand-ins* for contracts that are ASSUMED in the Verus units (never counted as proved) and the concrete
// replay for failed obligations of the algorithm/planner units.
use crate::math_utils::{PrimeFactor, PrimeFactors};
use crate::{Fft, FftDirection, FftNum, Length, Direction};
use crate::algorithm::*;
use num_complex::Complex;
use std::panic::{catch_unwind, AssertUnwindSafe};
use std::sync::Arc;

fn quiet<R>(f: impl FnOnce() -> R) -> std::thread::Result<R> {
    let prev = std::panic::take_hook();
    std::panic::set_hook(Box::new(|_| {}));
    let r = catch_unwind(AssertUnwindSafe(f));
    std::panic::set_hook(prev);
    r
}
fn panic_msg(e: Box<dyn std::any::Any + Send>) -> String {
    if let Some(s) = e.downcast_ref::<String>() { s.clone() } else if let Some(s) = e.downcast_ref::<&str>() { s.to_string() } else { "panic".into() }
}
fn is_prime_naive(n: usize) -> bool {
    if n < 2 { return false; }
    let mut d = 2;
    while d * d <= n { if n % d == 0 { return false; } d += 1; }
    true
}

// executable well-formedness of a PrimeFactors value through its public accessors
fn pf_check(f: &PrimeFactors, n: usize) -> Result<(), String> {
    if f.get_product() != n { return Err(format!("get_product() = {} != {}", f.get_product(), n)); }
    let mut prod: u128 = 1u128 << f.get_power_of_two();
    prod *= 3u128.pow(f.get_power_of_three());
    let mut total = f.get_power_of_two() + f.get_power_of_three();
    let mut distinct = (f.get_power_of_two() > 0) as u32 + (f.get_power_of_three() > 0) as u32;
    let mut last = 4usize;
    for pf in f.get_other_factors() {
        if pf.count == 0 { return Err(format!("factor {} with count 0", pf.value)); }
        if pf.value <= last { return Err(format!("factors not strictly increasing at {}", pf.value)); }
        if !is_prime_naive(pf.value) { return Err(format!("factor {} is not prime", pf.value)); }
        last = pf.value;
        prod *= (pf.value as u128).pow(pf.count);
        total += pf.count;
        distinct += 1;
    }
    if prod != n as u128 { return Err(format!("product of factors = {} != {}", prod, n)); }
    if total != f.get_total_factor_count() { return Err(format!("total_factor_count {} != {}", f.get_total_factor_count(), total)); }
    if distinct != f.get_distinct_factor_count() { return Err(format!("distinct_factor_count {} != {}", f.get_distinct_factor_count(), distinct)); }
    Ok(())
}

fn structured_lengths(limit: u64) -> Vec<usize> {
    // prime powers and products of few prime powers below `limit`
    let primes = [2u64, 3, 5, 7, 11, 13, 17, 19, 23, 29, 31, 37, 41, 43, 47, 53, 97, 101, 127, 251, 257, 509, 1021];
    let mut v = vec![];
    for &p in &primes {
        let mut x = p;
        while x < limit { v.push(x as usize); for &q in &primes { let mut y = x * q; let mut c = 0; while y < limit && c < 3 { v.push(y as usize); y *= q; c += 1; } } x *= p; }
    }
    v.sort(); v.dedup(); v
}

fn check_partition(n: usize) -> Option<String> {
    let f = PrimeFactors::compute(n);
    if let Err(e) = pf_check(&f, n) { return Some(format!("PrimeFactors::compute({}): {}", n, e)); }
    if f.is_prime() != is_prime_naive(n) { return Some(format!("PrimeFactors::compute({}).is_prime() = {}", n, f.is_prime())); }
    if n >= 2 && !f.is_prime() {
        let r = quiet(|| f.clone().partition_factors());
        match r {
            Err(e) => return Some(format!("PrimeFactors::compute({}).partition_factors() panicked: {}", n, panic_msg(e))),
            Ok((l, r)) => {
                let (ln, rn) = (l.get_product(), r.get_product());
                if ln < 2 || rn < 2 || (ln as u128) * (rn as u128) != n as u128 {
                    return Some(format!("PrimeFactors::compute({}).partition_factors() = ({}, {}): parts must be >= 2 with product {}", n, ln, rn, n));
                }
                if let Err(e) = pf_check(&l, ln) { return Some(format!("partition_factors of {}: left part {}: {}", n, ln, e)); }
                if let Err(e) = pf_check(&r, rn) { return Some(format!("partition_factors of {}: right part {}: {}", n, rn, e)); }
            }
        }
    }
    // assumed iterator one-liners
    for m in [0usize, 1, 2, 3, 4, 5, 6, 7, 10, 11, 23] {
        let o = f.get_other_factors();
        let leq = f.get_power_of_two() > 0 || f.get_power_of_three() > 0 || (o.len() > 0 && o[0].value <= m);
        if f.has_factors_leq(m) != leq { return Some(format!("PrimeFactors::compute({}).has_factors_leq({}) = {}", n, m, f.has_factors_leq(m))); }
        let gt = (m < 2 && f.get_power_of_two() > 0) || (m < 3 && f.get_power_of_three() > 0) || (o.len() > 0 && o[o.len() - 1].value > m);
        if f.has_factors_gt(m) != gt { return Some(format!("PrimeFactors::compute({}).has_factors_gt({}) = {}", n, m, f.has_factors_gt(m))); }
        let pa: usize = o.iter().filter(|x| x.value > m).map(|x| x.value.pow(x.count)).product();
        if f.product_above(m) != pa { return Some(format!("PrimeFactors::compute({}).product_above({}) = {} != {}", n, m, f.product_above(m), pa)); }
    }
    None
}

fn check_plan_scalar(n: usize) -> Option<String> {
    for d in [FftDirection::Forward, FftDirection::Inverse] {
        let r = quiet(|| { let mut p = crate::FftPlannerScalar::<f64>::new(); p.plan_fft(n, d) });
        match r {
            Err(e) => return Some(format!("FftPlannerScalar::<f64>::new().plan_fft({}, {:?}) panicked: {}", n, d, panic_msg(e))),
            Ok(f) => {
                if f.len() != n { return Some(format!("FftPlannerScalar plan_fft({}, {:?}).len() = {}", n, d, f.len())); }
                if f.fft_direction() != d { return Some(format!("FftPlannerScalar plan_fft({}, {:?}).fft_direction() = {:?}", n, d, f.fft_direction())); }
                let worst = f.get_inplace_scratch_len().max(f.get_outofplace_scratch_len()).max(f.get_immutable_scratch_len());
                if worst > 12 * n + 64 { return Some(format!("FftPlannerScalar plan_fft({}, {:?}) advertises scratch {} > 12n+64", n, d, worst)); }
            }
        }
    }
    None
}


// Reads the slice through volatile loads so that a write through a shared reference (UB the optimizer may otherwise
// "reason away") is observed.
fn volatile_bits<T: Copy>(v: &[Complex<T>]) -> Vec<[u8; 32]> {
    let sz = std::mem::size_of::<Complex<T>>();
    v.iter().map(|x| { let mut out = [0u8; 32]; let p = x as *const Complex<T> as *const u8; for i in 0..sz.min(32) { out[i] = unsafe { std::ptr::read_volatile(p.add(i)) }; } out }).collect()
}
// ---- stubs obeying (and checking) the Fft contract, used to replay wrapper plumbing ---------------------------------
pub struct StubFft { pub len: usize, pub ip: usize, pub oop: usize, pub imm: usize, pub dir: FftDirection }
impl Length for StubFft { fn len(&self) -> usize { self.len } }
impl Direction for StubFft { fn fft_direction(&self) -> FftDirection { self.dir } }
impl StubFft {
    fn garbage(s: &mut [Complex<f64>], salt: f64) { for (i, x) in s.iter_mut().enumerate() { *x = Complex::new(1.0e6 + salt + i as f64, -7.5); } }
    fn apply(chunk: &mut [Complex<f64>]) { // deterministic per-chunk function in which every output depends on every input (like a DFT)
        let mut sum = Complex::new(0.0, 0.0);
        for x in chunk.iter() { sum = sum + *x; }
        chunk.reverse();
        for (i, x) in chunk.iter_mut().enumerate() { *x = *x * 0.5 + sum * 0.25 + Complex::new(i as f64, 1.0); }
    }
}
impl Fft<f64> for StubFft {
    fn process_with_scratch(&self, buffer: &mut [Complex<f64>], scratch: &mut [Complex<f64>]) {
        if self.len == 0 { return; }
        assert!(buffer.len() % self.len == 0, "STUB-CONTRACT: inner process_with_scratch got buffer.len() = {} for len {}", buffer.len(), self.len);
        assert!(scratch.len() >= self.ip, "STUB-CONTRACT: inner process_with_scratch got scratch.len() = {} < advertised {}", scratch.len(), self.ip);
        for c in buffer.chunks_exact_mut(self.len) { Self::apply(c); }
        Self::garbage(scratch, 1.0);
    }
    fn process_outofplace_with_scratch(&self, input: &mut [Complex<f64>], output: &mut [Complex<f64>], scratch: &mut [Complex<f64>]) {
        if self.len == 0 { return; }
        assert!(input.len() == output.len() && input.len() % self.len == 0, "STUB-CONTRACT: inner out-of-place got input.len() = {}, output.len() = {} for len {}", input.len(), output.len(), self.len);
        assert!(scratch.len() >= self.oop, "STUB-CONTRACT: inner out-of-place got scratch.len() = {} < advertised {}", scratch.len(), self.oop);
        output.copy_from_slice(input);
        for c in output.chunks_exact_mut(self.len) { Self::apply(c); }
        Self::garbage(input, 2.0);
        Self::garbage(scratch, 3.0);
    }
    fn process_immutable_with_scratch(&self, input: &[Complex<f64>], output: &mut [Complex<f64>], scratch: &mut [Complex<f64>]) {
        if self.len == 0 { return; }
        assert!(input.len() == output.len() && input.len() % self.len == 0, "STUB-CONTRACT: inner immutable got input.len() = {}, output.len() = {} for len {}", input.len(), output.len(), self.len);
        assert!(scratch.len() >= self.imm, "STUB-CONTRACT: inner immutable got scratch.len() = {} < advertised {}", scratch.len(), self.imm);
        output.copy_from_slice(input);
        for c in output.chunks_exact_mut(self.len) { Self::apply(c); }
        Self::garbage(scratch, 4.0);
    }
    fn get_inplace_scratch_len(&self) -> usize { self.ip }
    fn get_outofplace_scratch_len(&self) -> usize { self.oop }
    fn get_immutable_scratch_len(&self) -> usize { self.imm }
}
fn stub(len: usize, ip: usize, oop: usize, imm: usize) -> Arc<dyn Fft<f64>> { Arc::new(StubFft { len, ip, oop, imm, dir: FftDirection::Forward }) }

// run the three explicit-scratch entry points of `fft` with scratch of exactly the advertised length (garbage-filled) and
// with a longer zeroed scratch; report a panic or a bitwise difference between the two runs
fn exercise(desc: &str, fft: &dyn Fft<f64>) -> Option<String> {
    let n = fft.len();
    for chunks in [1usize, 2] {
        let data: Vec<Complex<f64>> = (0..n * chunks).map(|i| Complex::new(i as f64 + 0.5, -(i as f64))).collect();
        let mut outs: Vec<Vec<Vec<Complex<f64>>>> = vec![];
        for variant in 0..2 {
            let mut res = vec![];
            // in-place
            let need = fft.get_inplace_scratch_len();
            let mut buf = data.clone();
            let mut scratch = if variant == 0 { vec![Complex::new(f64::NAN, 1.0e300); need] } else { vec![Complex::new(0.0, 0.0); need + 17] };
            if let Err(e) = quiet(|| fft.process_with_scratch(&mut buf, &mut scratch)) {
                return Some(format!("{desc}: process_with_scratch(buffer.len()={}, scratch.len()={} (advertised {})) panicked: {}", buf.len(), scratch.len(), need, panic_msg(e)));
            }
            res.push(buf);
            // out-of-place
            let need = fft.get_outofplace_scratch_len();
            let mut inp = data.clone();
            let mut out = if variant == 0 { vec![Complex::new(f64::NAN, -1.0e300); n * chunks] } else { vec![Complex::new(0.0, 0.0); n * chunks] };
            let mut scratch = if variant == 0 { vec![Complex::new(f64::NAN, 1.0e300); need] } else { vec![Complex::new(0.0, 0.0); need + 17] };
            if let Err(e) = quiet(|| fft.process_outofplace_with_scratch(&mut inp, &mut out, &mut scratch)) {
                return Some(format!("{desc}: process_outofplace_with_scratch(len={}, scratch.len()={} (advertised {})) panicked: {}", inp.len(), scratch.len(), need, panic_msg(e)));
            }
            res.push(out);
            // immutable
            let need = fft.get_immutable_scratch_len();
            let inp = data.clone();
            let mut out = if variant == 0 { vec![Complex::new(f64::NAN, -1.0e300); n * chunks] } else { vec![Complex::new(0.0, 0.0); n * chunks] };
            let mut scratch = if variant == 0 { vec![Complex::new(f64::NAN, 1.0e300); need] } else { vec![Complex::new(0.0, 0.0); need + 17] };
            if let Err(e) = quiet(|| fft.process_immutable_with_scratch(&inp, &mut out, &mut scratch)) {
                return Some(format!("{desc}: process_immutable_with_scratch(len={}, scratch.len()={} (advertised {})) panicked: {}", inp.len(), scratch.len(), need, panic_msg(e)));
            }
            if inp.iter().zip(data.iter()).any(|(a, b)| a.re.to_bits() != b.re.to_bits() || a.im.to_bits() != b.im.to_bits()) {
                return Some(format!("{desc}: process_immutable_with_scratch modified its input"));
            }
            res.push(out);
            outs.push(res);
        }
        for (k, name) in ["process_with_scratch", "process_outofplace_with_scratch", "process_immutable_with_scratch"].iter().enumerate() {
            let same = outs[0][k].iter().zip(outs[1][k].iter()).all(|(a, b)| a.re.to_bits() == b.re.to_bits() && a.im.to_bits() == b.im.to_bits());
            if !same { return Some(format!("{desc}: {name} output depends on scratch/output initial contents or scratch length ({} chunk(s))", chunks)); }
        }
    }
    None
}

fn needs(len: usize) -> Vec<usize> { let mut v = vec![0, 1, len.saturating_sub(1), len, len + 1, 2 * len + 3, 3 * len * len + 1]; v.sort(); v.dedup(); v }

fn wrapper2(which: &str) -> Option<String> {
    // two-inner wrappers over stubs: all small (w, h) and all combinations of inner scratch needs
    for w in 1..=4usize { for h in 1..=4usize {
        let small = which.ends_with("Small");
        let gt = which.starts_with("GoodThomas");
        if gt && num_integer::gcd(w, h) != 1 { continue; }
        for &wip in &needs(w) { for &woop in &needs(w) { for &hip in &needs(h) { for &hoop in &needs(h) {
            if small && (woop != 0 || hoop != 0 || wip > w || hip > h) { continue; }
            let (a, b) = (stub(w, wip, woop, wip), stub(h, hip, hoop, hip));
            let desc = format!("{which}::new(inner(len={w}, inplace={wip}, outofplace={woop}), inner(len={h}, inplace={hip}, outofplace={hoop}))");
            let built: std::thread::Result<Box<dyn Fft<f64>>> = quiet(|| -> Box<dyn Fft<f64>> { match which {
                "MixedRadix" => Box::new(MixedRadix::new(a, b)),
                "MixedRadixSmall" => Box::new(MixedRadixSmall::new(a, b)),
                "GoodThomasAlgorithm" => Box::new(GoodThomasAlgorithm::new(a, b)),
                _ => Box::new(GoodThomasAlgorithmSmall::new(a, b)),
            }});
            match built {
                Err(e) => return Some(format!("{desc} panicked under its documented precondition: {}", panic_msg(e))),
                Ok(f) => {
                    if f.len() != w * h { return Some(format!("{desc}.len() = {}", f.len())); }
                    if let Some(x) = exercise(&desc, &*f) { return Some(x); }
                }
            }
        }}}}
    }}
    None
}

fn wrapper1(which: &str) -> Option<String> {
    for base in 1..=5usize { for &bip in &needs(base) { for &boop in &needs(base) {
        let mk = || stub(base, bip, boop, bip);
        let mut cands: Vec<(String, std::thread::Result<Box<dyn Fft<f64>>>)> = vec![];
        match which {
            "Radix4" => for k in 0..=2u32 { cands.push((format!("Radix4::new_with_base({k}, inner(len={base}, inplace={bip}, outofplace={boop}))"), quiet(|| -> Box<dyn Fft<f64>> { Box::new(Radix4::new_with_base(k, mk())) }))); },
            "Radix3" => for k in 0..=2u32 { cands.push((format!("Radix3::new_with_base({k}, inner(len={base}, inplace={bip}, outofplace={boop}))"), quiet(|| -> Box<dyn Fft<f64>> { Box::new(Radix3::new_with_base(k, mk())) }))); },
            "RadersAlgorithm" => { if is_prime_naive(base + 1) { cands.push((format!("RadersAlgorithm::new(inner(len={base}, inplace={bip}, outofplace={boop}))"), quiet(|| -> Box<dyn Fft<f64>> { Box::new(RadersAlgorithm::new(mk())) }))); } },
            "BluesteinsAlgorithm" => for len in 1..=((base + 1) / 2) { cands.push((format!("BluesteinsAlgorithm::new({len}, inner(len={base}, inplace={bip}, outofplace={boop}))"), quiet(|| -> Box<dyn Fft<f64>> { Box::new(BluesteinsAlgorithm::new(len, mk())) }))); },
            _ => {}
        }
        for (desc, built) in cands {
            match built {
                Err(e) => return Some(format!("{desc} panicked under its documented precondition: {}", panic_msg(e))),
                Ok(f) => { if let Some(x) = exercise(&desc, &*f) { return Some(x); } }
            }
        }
    }}}
    None
}

fn run_fft(f: &Arc<dyn Fft<f64>>) -> Vec<Complex<f64>> {
    let n = f.len();
    let mut buf: Vec<Complex<f64>> = (0..n).map(|i| Complex::new(((i * 7 + 3) % 11) as f64 - 5.0, ((i * 5 + 1) % 13) as f64 * 0.25)).collect();
    let mut scratch = vec![Complex::new(0.0, 0.0); f.get_inplace_scratch_len()];
    f.process_with_scratch(&mut buf, &mut scratch);
    buf
}
// C10 bounded stand-in: every request sequence up to the given depth over a pool of related (length, direction) pairs on ONE
// FftPlannerScalar: no panic, right length and direction, and bit-identical output to a fresh planner's transform
fn plan_history(pool: &[usize], depth: usize) -> Option<String> {
    let dirs = [FftDirection::Forward, FftDirection::Inverse];
    let reqs: Vec<(usize, FftDirection)> = pool.iter().flat_map(|&n| dirs.iter().map(move |&d| (n, d))).collect();
    let fresh: Vec<Vec<Complex<f64>>> = reqs.iter().map(|&(n, d)| run_fft(&crate::FftPlannerScalar::<f64>::new().plan_fft(n, d))).collect();
    let mut idx = vec![0usize; depth];
    loop {
        let seq: Vec<(usize, FftDirection)> = idx.iter().map(|&i| reqs[i]).collect();
        let r = quiet(|| {
            let mut p = crate::FftPlannerScalar::<f64>::new();
            for (step, &(n, d)) in seq.iter().enumerate() {
                let f = p.plan_fft(n, d);
                if f.len() != n { return Some(format!("request {} of {:?} on one FftPlannerScalar returned len() = {}", step + 1, seq, f.len())); }
                if f.fft_direction() != d { return Some(format!("request {} of {:?} on one FftPlannerScalar returned fft_direction() = {:?}", step + 1, seq, f.fft_direction())); }
                if step + 1 == seq.len() {
                    let out = run_fft(&f);
                    let want = &fresh[idx[step]];
                    if out.len() != want.len() || out.iter().zip(want.iter()).any(|(a, b)| a.re.to_bits() != b.re.to_bits() || a.im.to_bits() != b.im.to_bits()) {
                        return Some(format!("last transform of {:?} on one FftPlannerScalar differs bitwise from the same request on a fresh planner", seq));
                    }
                }
            }
            None
        });
        match r {
            Err(e) => return Some(format!("request sequence {:?} on one FftPlannerScalar panicked: {}", seq, panic_msg(e))),
            Ok(Some(x)) => return Some(x),
            Ok(None) => {}
        }
        // next index vector
        let mut k = depth;
        loop {
            if k == 0 { return None; }
            k -= 1;
            idx[k] += 1;
            if idx[k] < reqs.len() { break; }
            idx[k] = 0;
        }
    }
}

// C03/C09 bounded stand-in on real transforms: canary-guarded caller buffers, every call shape around the valid one
fn shapes_one(desc: &str, f: &dyn Fft<f64>) -> Option<String> {
    const G: usize = 8; // canary elements on each side
    let canary = Complex::new(-12345.5, 54321.25);
    let n = f.len();
    let guarded = |len: usize| -> Vec<Complex<f64>> { let mut v = vec![canary; len + 2 * G]; for (i, x) in v[G..G + len].iter_mut().enumerate() { *x = Complex::new(i as f64, 1.0); } v };
    let intact = |v: &Vec<Complex<f64>>, len: usize| -> bool { v[..G].iter().chain(v[G + len..].iter()).all(|x| x.re.to_bits() == canary.re.to_bits() && x.im.to_bits() == canary.im.to_bits()) };
    let mut lens = vec![0usize, 1, n.saturating_sub(1), n, n + 1, 2 * n, (2 * n).saturating_sub(1), 2 * n + 1, 3 * n];
    lens.sort(); lens.dedup();
    for entry in 0..3 {
        let adv = match entry { 0 => f.get_inplace_scratch_len(), 1 => f.get_outofplace_scratch_len(), _ => f.get_immutable_scratch_len() };
        let mut slens = vec![0usize, adv.saturating_sub(1), adv, adv + 1];
        slens.sort(); slens.dedup();
        for &dl in &lens { for &sl in &slens {
            let mut olens = vec![dl];
            if entry > 0 { olens = vec![dl, dl + 1, dl.saturating_sub(1), dl + n, dl.saturating_sub(n)]; olens.sort(); olens.dedup(); }
            for &ol in &olens {
                let well = n == 0 || (dl % n == 0 && (entry == 0 || ol == dl) && sl >= adv);
                let name = ["process_with_scratch", "process_outofplace_with_scratch", "process_immutable_with_scratch"][entry];
                let case = format!("{desc}.{name}(data.len()={dl}, output.len()={ol}, scratch.len()={sl}) [len {n}, advertised scratch {adv}]");
                eprintln!("CASE {case}");
                let (mut a, mut b, mut c) = (guarded(dl), guarded(ol), guarded(sl));
                let before = volatile_bits(&a);
                let r = quiet(|| {
                    let (x, y, z) = (&mut a[G..G + dl], &mut b[G..G + ol], &mut c[G..G + sl]);
                    match entry { 0 => f.process_with_scratch(x, z), 1 => f.process_outofplace_with_scratch(x, y, z), _ => f.process_immutable_with_scratch(std::hint::black_box(&*x), y, z) }
                });
                if !intact(&a, dl) || !intact(&b, ol) || !intact(&c, sl) { return Some(format!("{case}: memory outside the caller's slices was written")); }
                if entry == 2 && volatile_bits(std::hint::black_box(&a)) != before { return Some(format!("{case}: the immutable input was modified")); }
                match r {
                    Ok(()) => if !well { return Some(format!("{case}: ill-shaped call returned normally")); },
                    Err(e) => if well { return Some(format!("{case}: well-shaped call panicked: {}", panic_msg(e))); },
                }
            }
        }}
    }
    None
}
fn shapes(limit: usize) -> Option<String> {
    use crate::algorithm::butterflies::*;
    let d = FftDirection::Forward;
    macro_rules! b { ($($t:ident),*) => { $( if let Some(x) = shapes_one(concat!(stringify!($t), "::new(Forward)"), &$t::<f64>::new(d)) { return Some(x); } )* } }
    b!(Butterfly1, Butterfly2, Butterfly3, Butterfly4, Butterfly5, Butterfly6, Butterfly7, Butterfly8, Butterfly9, Butterfly11, Butterfly12, Butterfly13,
       Butterfly16, Butterfly17, Butterfly19, Butterfly23, Butterfly24, Butterfly27, Butterfly29, Butterfly31, Butterfly32);
    for n in 0..4 { if let Some(x) = shapes_one(&format!("Dft::new({n}, Forward)"), &Dft::<f64>::new(n, d)) { return Some(x); } }
    for n in 0..limit {
        let f = crate::FftPlannerScalar::<f64>::new().plan_fft(n, if n % 2 == 0 { FftDirection::Forward } else { FftDirection::Inverse });
        if let Some(x) = shapes_one(&format!("FftPlannerScalar.plan_fft({n})"), &*f) { return Some(x); }
    }
    None
}

// C07 bounded stand-in on real transforms: a k-chunk call equals k single-chunk calls bit for bit, on all three entry points
fn chunks_one(desc: &str, f: &dyn Fft<f64>) -> Option<String> {
    let n = f.len();
    if n == 0 { return None; }
    let gen = |i: usize| Complex::new(((i * 7 + 3) % 11) as f64 - 5.0, ((i * 5 + 1) % 13) as f64 * 0.25);
    let same = |a: &[Complex<f64>], b: &[Complex<f64>]| a.len() == b.len() && a.iter().zip(b.iter()).all(|(x, y)| x.re.to_bits() == y.re.to_bits() && x.im.to_bits() == y.im.to_bits());
    for entry in 0..3 {
        let adv = match entry { 0 => f.get_inplace_scratch_len(), 1 => f.get_outofplace_scratch_len(), _ => f.get_immutable_scratch_len() };
        let name = ["process_with_scratch", "process_outofplace_with_scratch", "process_immutable_with_scratch"][entry];
        let run = |data: &[Complex<f64>]| -> Vec<Complex<f64>> {
            let mut a = data.to_vec();
            let mut b = vec![Complex::new(-777.0, 777.0); data.len()];
            let mut sc = vec![Complex::new(0.0, 0.0); adv];
            match entry { 0 => { f.process_with_scratch(&mut a, &mut sc); a }, 1 => { f.process_outofplace_with_scratch(&mut a, &mut b, &mut sc); b }, _ => { f.process_immutable_with_scratch(&a, &mut b, &mut sc); b } }
        };
        for k in 1..=6usize {
            let data: Vec<Complex<f64>> = (0..k * n).map(gen).collect();
            let r = quiet(|| {
                let whole = run(&data);
                for c in 0..k {
                    let single = run(&data[c * n..(c + 1) * n]);
                    if !same(&whole[c * n..(c + 1) * n], &single) { return Some(format!("{desc}.{name}: chunk {c} of a {k}-chunk call differs from the same chunk transformed alone")); }
                }
                None
            });
            match r { Err(e) => return Some(format!("{desc}.{name} with {k} chunks panicked: {}", panic_msg(e))), Ok(Some(x)) => return Some(x), Ok(None) => {} }
        }
    }
    None
}
fn chunks(limit: usize) -> Option<String> {
    use crate::algorithm::butterflies::*;
    let d = FftDirection::Forward;
    macro_rules! b { ($($t:ident),*) => { $( if let Some(x) = chunks_one(concat!(stringify!($t), "::new(Forward)"), &$t::<f64>::new(d)) { return Some(x); } )* } }
    b!(Butterfly1, Butterfly2, Butterfly3, Butterfly4, Butterfly5, Butterfly6, Butterfly7, Butterfly8, Butterfly9, Butterfly11, Butterfly12, Butterfly13,
       Butterfly16, Butterfly17, Butterfly19, Butterfly23, Butterfly24, Butterfly27, Butterfly29, Butterfly31, Butterfly32);
    for n in 1..4 { if let Some(x) = chunks_one(&format!("Dft::new({n}, Forward)"), &Dft::<f64>::new(n, d)) { return Some(x); } }
    for n in 1..limit {
        let f = crate::FftPlannerScalar::<f64>::new().plan_fft(n, if n % 2 == 0 { FftDirection::Forward } else { FftDirection::Inverse });
        if let Some(x) = chunks_one(&format!("FftPlannerScalar.plan_fft({n})"), &*f) { return Some(x); }
    }
    None
}

// C01 bounded stand-in (floating-point algebra is outside both verifiers): the scalar planner's transform against the
// definition X[k] = sum_j x[j] exp(-+2 pi i jk/n), decided per n on unit impulses and a two-impulse sum (linear, data
// oblivious circuit), plus a dense vector against the naive O(n^2) sum for n <= 256; all four entry points.
fn dft_one(n: usize, d: FftDirection, f: &dyn Fft<f64>, desc: &str) -> Option<String> {
    if n == 0 { return None; }
    let sign = if d == FftDirection::Forward { -1.0 } else { 1.0 };
    let tw = |j: usize, k: usize| -> Complex<f64> { let idx = ((j as u128 * k as u128) % n as u128) as f64; let a = sign * 2.0 * std::f64::consts::PI * idx / n as f64; Complex::new(a.cos(), a.sin()) };
    let tol = 1e-9 * ((n as f64).log2().max(1.0));
    let run = |entry: usize, x: &[Complex<f64>]| -> Vec<Complex<f64>> {
        let mut a = x.to_vec();
        let mut b = vec![Complex::new(f64::NAN, f64::NAN); n];
        match entry {
            0 => { f.process(&mut a); a }
            1 => { let mut s = vec![Complex::new(f64::NAN, 0.0); f.get_inplace_scratch_len()]; f.process_with_scratch(&mut a, &mut s); a }
            2 => { let mut s = vec![Complex::new(f64::NAN, 0.0); f.get_outofplace_scratch_len()]; f.process_outofplace_with_scratch(&mut a, &mut b, &mut s); b }
            _ => { let mut s = vec![Complex::new(f64::NAN, 0.0); f.get_immutable_scratch_len()]; f.process_immutable_with_scratch(&a, &mut b, &mut s); b }
        }
    };
    let names = ["process", "process_with_scratch", "process_outofplace_with_scratch", "process_immutable_with_scratch"];
    let mut impulses = vec![0usize, 1 % n, (n / 2 + 1) % n, n - 1, (n / 3) % n];
    impulses.sort(); impulses.dedup();
    for entry in 0..4 {
        for &j in &impulses {
            let mut x = vec![Complex::new(0.0, 0.0); n];
            x[j] = Complex::new(1.0, 0.0);
            let j2 = (j + n / 5 + 1) % n;
            x[j2] = x[j2] + Complex::new(0.0, 2.0);
            let out = run(entry, &x);
            for k in 0..n {
                let want = tw(j, k) + tw(j2, k) * Complex::new(0.0, 2.0);
                let got = out[k];
                if !((got - want).norm() <= tol * 3.0) {
                    return Some(format!("{desc}.{}: impulses at {j} and {j2} (n = {n}, {:?}): output[{k}] = {:?}, DFT definition gives {:?}", names[entry], d, got, want));
                }
            }
        }
        if n <= 256 {
            let x: Vec<Complex<f64>> = (0..n).map(|i| Complex::new(((i * 7 + 3) % 11) as f64 - 5.0, ((i * 5 + 1) % 13) as f64 * 0.25)).collect();
            let out = run(entry, &x);
            for k in 0..n {
                let mut want = Complex::new(0.0, 0.0);
                for j in 0..n { want = want + x[j] * tw(j, k); }
                if !((out[k] - want).norm() <= 1e-9 * (n as f64) * 10.0) {
                    return Some(format!("{desc}.{}: dense input (n = {n}, {:?}): output[{k}] = {:?}, naive DFT gives {:?}", names[entry], d, out[k], want));
                }
            }
        }
    }
    None
}

// C12 / C01 at composition level: expression trees over the PUBLIC constructors (leaves: Dft and the fixed-size butterflies; wrappers:
// MixedRadix, MixedRadixSmall, GoodThomasAlgorithm(Small), Radix4 / Radix3::new_with_base, RadersAlgorithm, BluesteinsAlgorithm with
// every admissible length for the given inner transform), each built within its documented precondition and compared against the DFT
// definition through all four entry points (dft_one).  depth 1: every wrapper over leaves; depth 2: every wrapper over a depth-1 node
// and a leaf (bounded by the composite length).
fn compose(max_len: usize, deep: bool) -> Option<String> {
    use crate::algorithm::butterflies::*;
    let mut leaves: Vec<(String, Arc<dyn Fft<f64>>)> = Vec::new();
    for d in [FftDirection::Forward, FftDirection::Inverse] {
        for n in [1usize, 2, 3, 4, 5, 6, 7] { leaves.push((format!("Dft::new({n}, {d:?})"), Arc::new(Dft::new(n, d)))); }
        macro_rules! bf { ($($t:ident),*) => { $( leaves.push((format!("{}::new({d:?})", stringify!($t)), Arc::new($t::new(d)) as Arc<dyn Fft<f64>>)); )* } }
        bf!(Butterfly2, Butterfly3, Butterfly4, Butterfly5, Butterfly6, Butterfly7, Butterfly8, Butterfly9, Butterfly11, Butterfly12, Butterfly13, Butterfly16);
    }
    let wrap = |inner: &[(String, Arc<dyn Fft<f64>>)], others: &[(String, Arc<dyn Fft<f64>>)], limit: usize| -> Result<Vec<(String, Arc<dyn Fft<f64>>)>, String> {
        let mut out: Vec<(String, Arc<dyn Fft<f64>>)> = Vec::new();
        let mut push = |desc: String, b: std::thread::Result<Arc<dyn Fft<f64>>>| -> Result<(), String> {
            match b { Err(e) => Err(format!("{desc} panicked under its documented precondition: {}", panic_msg(e))), Ok(f) => { out.push((desc, f)); Ok(()) } }
        };
        for (da, a) in inner {
            let (la, dir) = (a.len(), a.fft_direction());
            // one-inner wrappers
            if la + 1 <= limit && la >= 1 && is_prime_naive(la + 1) { let a2 = Arc::clone(a); push(format!("RadersAlgorithm::new({da})"), quiet(move || Arc::new(RadersAlgorithm::new(a2)) as Arc<dyn Fft<f64>>))?; }
            for len in 1..=((la + 1) / 2) { if len <= limit && (len == (la + 1) / 2 || len == 1 || len == (la + 1) / 2 - 1) { let a2 = Arc::clone(a); push(format!("BluesteinsAlgorithm::new({len}, {da})"), quiet(move || Arc::new(BluesteinsAlgorithm::new(len, a2)) as Arc<dyn Fft<f64>>))?; } }
            for k in 1..=2u32 {
                if la * 4usize.pow(k) <= limit { let a2 = Arc::clone(a); push(format!("Radix4::new_with_base({k}, {da})"), quiet(move || Arc::new(Radix4::new_with_base(k, a2)) as Arc<dyn Fft<f64>>))?; }
                if la * 3usize.pow(k) <= limit { let a2 = Arc::clone(a); push(format!("Radix3::new_with_base({k}, {da})"), quiet(move || Arc::new(Radix3::new_with_base(k, a2)) as Arc<dyn Fft<f64>>))?; }
            }
            // two-inner wrappers (same direction)
            for (db, b) in others {
                let lb = b.len();
                if b.fft_direction() != dir || la * lb > limit || la * lb < 2 { continue; }
                for swap in [false, true] {
                    let (x, y, dx, dy) = if swap { (Arc::clone(b), Arc::clone(a), db, da) } else { (Arc::clone(a), Arc::clone(b), da, db) };
                    { let (x, y) = (Arc::clone(&x), Arc::clone(&y)); push(format!("MixedRadix::new({dx}, {dy})"), quiet(move || Arc::new(MixedRadix::new(x, y)) as Arc<dyn Fft<f64>>))?; }
                    let small_ok = |f: &Arc<dyn Fft<f64>>| f.get_outofplace_scratch_len() == 0 && f.get_inplace_scratch_len() <= f.len();
                    if small_ok(&x) && small_ok(&y) { let (x, y) = (Arc::clone(&x), Arc::clone(&y)); push(format!("MixedRadixSmall::new({dx}, {dy})"), quiet(move || Arc::new(MixedRadixSmall::new(x, y)) as Arc<dyn Fft<f64>>))?; }
                    if num_integer::gcd(la, lb) == 1 {
                        { let (x, y) = (Arc::clone(&x), Arc::clone(&y)); push(format!("GoodThomasAlgorithm::new({dx}, {dy})"), quiet(move || Arc::new(GoodThomasAlgorithm::new(x, y)) as Arc<dyn Fft<f64>>))?; }
                        if small_ok(&x) && small_ok(&y) { let (x, y) = (Arc::clone(&x), Arc::clone(&y)); push(format!("GoodThomasAlgorithmSmall::new({dx}, {dy})"), quiet(move || Arc::new(GoodThomasAlgorithmSmall::new(x, y)) as Arc<dyn Fft<f64>>))?; }
                    }
                    if la == lb { break; }
                }
            }
        }
        Ok(out)
    };
    let check = |nodes: &[(String, Arc<dyn Fft<f64>>)]| -> Option<String> {
        for (desc, f) in nodes {
            eprintln!("CASE {desc}");
            let r = quiet(|| dft_one(f.len(), f.fft_direction(), &**f, desc));
            match r { Err(e) => return Some(format!("{desc}: a well-shaped call panicked: {}", panic_msg(e))), Ok(Some(x)) => return Some(x), Ok(None) => {} }
        }
        None
    };
    let depth1 = match wrap(&leaves, &leaves, max_len) { Ok(v) => v, Err(e) => return Some(e) };
    if let Some(x) = check(&depth1) { return Some(x); }
    if deep {
        // depth 2: wrappers over a (thinned) set of depth-1 nodes and the small leaves
        let small: Vec<(String, Arc<dyn Fft<f64>>)> = leaves.iter().filter(|(_, f)| f.len() <= 5).map(|(d, f)| (d.clone(), Arc::clone(f))).collect();
        let d1: Vec<(String, Arc<dyn Fft<f64>>)> = depth1.iter().enumerate().filter(|(i, (_, f))| f.len() <= 40 && i % 3 == 0).map(|(_, (d, f))| (d.clone(), Arc::clone(f))).collect();
        let depth2 = match wrap(&d1, &small, 4 * max_len) { Ok(v) => v, Err(e) => return Some(e) };
        if let Some(x) = check(&depth2) { return Some(x); }
    }
    None
}

fn dft_scalar(limit: usize, big: bool) -> Option<String> {
    let mut lens: Vec<usize> = (1..limit).collect();
    let mut extra: Vec<usize> = vec![625, 1000, 1024, 1296, 2048, 2187, 2401, 3125, 4096, 5120, 8192, 16384, 1009, 2003, 4099, 1234, 6561, 15625];
    if big { extra.extend([32768, 65536, 131072, 40960, 70003, 65537, 100003, 30030, 78125, 59049, 117649, 50653]); }
    lens.extend(extra);
    for (i, &n) in lens.iter().enumerate() {
        let d = if i % 2 == 0 { FftDirection::Forward } else { FftDirection::Inverse };
        let desc = format!("FftPlannerScalar::<f64>.plan_fft({n}, {:?})", d);
        let r = quiet(|| { let f = crate::FftPlannerScalar::<f64>::new().plan_fft(n, d); dft_one(n, d, &*f, &desc) });
        match r { Err(e) => return Some(format!("{desc} panicked: {}", panic_msg(e))), Ok(Some(x)) => return Some(x), Ok(None) => {} }
    }
    None
}


// ---- operation count (C05, bounded stand-in: the 64 n log2 n clause is not decided by any contract) --------------------
// An instrumented element type counts every +, - and * of the element type that one chunk of the real portable planned
// transform performs.  Candidates above the exhaustive limit are chosen from the REAL recipes of the real planner (cheap:
// no twiddles are computed) by an estimated cost ratio; the verdict is always the measured count.
pub mod opcount {
    use super::*;
    use crate::num_traits::{FromPrimitive, Num, One, Signed, ToPrimitive, Zero};
    use crate::plan::Recipe;
    use std::cell::Cell;
    use std::ops::{Add, Div, Mul, Neg, Rem, Sub};
    thread_local! { static OPS: Cell<u64> = Cell::new(0); }
    fn bump() { OPS.with(|c| c.set(c.get() + 1)); }
    #[derive(Copy, Clone, Debug, PartialEq, PartialOrd)]
    pub struct Cnt(pub f64);
    impl Add for Cnt { type Output = Cnt; fn add(self, o: Cnt) -> Cnt { bump(); Cnt(self.0 + o.0) } }
    impl Sub for Cnt { type Output = Cnt; fn sub(self, o: Cnt) -> Cnt { bump(); Cnt(self.0 - o.0) } }
    impl Mul for Cnt { type Output = Cnt; fn mul(self, o: Cnt) -> Cnt { bump(); Cnt(self.0 * o.0) } }
    impl Div for Cnt { type Output = Cnt; fn div(self, o: Cnt) -> Cnt { Cnt(self.0 / o.0) } }
    impl Rem for Cnt { type Output = Cnt; fn rem(self, o: Cnt) -> Cnt { Cnt(self.0 % o.0) } }
    impl Neg for Cnt { type Output = Cnt; fn neg(self) -> Cnt { Cnt(-self.0) } }
    impl Zero for Cnt { fn zero() -> Cnt { Cnt(0.0) } fn is_zero(&self) -> bool { self.0 == 0.0 } }
    impl One for Cnt { fn one() -> Cnt { Cnt(1.0) } }
    impl Num for Cnt { type FromStrRadixErr = (); fn from_str_radix(_: &str, _: u32) -> Result<Cnt, ()> { Err(()) } }
    impl Signed for Cnt {
        fn abs(&self) -> Cnt { Cnt(self.0.abs()) }
        fn abs_sub(&self, o: &Cnt) -> Cnt { Cnt((self.0 - o.0).max(0.0)) }
        fn signum(&self) -> Cnt { Cnt(self.0.signum()) }
        fn is_positive(&self) -> bool { self.0 > 0.0 }
        fn is_negative(&self) -> bool { self.0 < 0.0 }
    }
    impl ToPrimitive for Cnt {
        fn to_i64(&self) -> Option<i64> { self.0.to_i64() }
        fn to_u64(&self) -> Option<u64> { self.0.to_u64() }
        fn to_f64(&self) -> Option<f64> { Some(self.0) }
    }
    impl FromPrimitive for Cnt {
        fn from_i64(n: i64) -> Option<Cnt> { Some(Cnt(n as f64)) }
        fn from_u64(n: u64) -> Option<Cnt> { Some(Cnt(n as f64)) }
        fn from_f64(n: f64) -> Option<Cnt> { Some(Cnt(n)) }
        fn from_f32(n: f32) -> Option<Cnt> { Some(Cnt(n as f64)) }
    }

    pub fn budget(n: usize) -> f64 { 64.0 * (n as f64) * (n as f64).log2() }

    /// measured operation count of one chunk, both through process_with_scratch and process_immutable_with_scratch
    pub fn measure(n: usize) -> Result<(u64, u64), String> {
        let r = quiet(|| {
            let f = crate::FftPlannerScalar::<Cnt>::new().plan_fft_forward(n);
            let mk = || -> Vec<Complex<Cnt>> { (0..n).map(|i| Complex::new(Cnt(0.25 + 0.37 * (i % 97) as f64), Cnt(-1.5 + 0.73 * (i % 89) as f64))).collect() };
            let mut a = mk();
            let mut s = vec![Complex::new(Cnt(0.0), Cnt(0.0)); f.get_inplace_scratch_len()];
            OPS.with(|c| c.set(0));
            f.process_with_scratch(&mut a, &mut s);
            let c1 = OPS.with(|c| c.get());
            let a2 = mk();
            let mut b = vec![Complex::new(Cnt(0.0), Cnt(0.0)); n];
            let mut s2 = vec![Complex::new(Cnt(0.0), Cnt(0.0)); f.get_immutable_scratch_len()];
            OPS.with(|c| c.set(0));
            f.process_immutable_with_scratch(&a2, &mut b, &mut s2);
            let c2 = OPS.with(|c| c.get());
            (c1, c2)
        });
        r.map_err(|e| format!("FftPlannerScalar::<Counted>::plan_fft_forward({n}) / process panicked: {}", panic_msg(e)))
    }

    pub fn check(n: usize) -> Option<String> {
        if n < 2 { return None; }
        match measure(n) {
            Err(e) => Some(e),
            Ok((c1, c2)) => {
                let b = budget(n);
                if (c1 as f64) > b || (c2 as f64) > b {
                    Some(format!("FftPlannerScalar (portable) n = {n}: one chunk performs {c1} (in place) / {c2} (immutable input) additions, subtractions and multiplications of the element type; budget 64*n*log2(n) = {:.0} (ratio {:.2})", b, (c1.max(c2) as f64) / b * 64.0))
                } else { None }
            }
        }
    }

    // rough cost of a recipe, only used to RANK candidates
    fn blen(r: &Recipe) -> f64 { r.len() as f64 }
    pub fn est(r: &Recipe) -> f64 {
        match r {
            Recipe::MixedRadix { left_fft, right_fft } | Recipe::GoodThomasAlgorithm { left_fft, right_fft }
            | Recipe::MixedRadixSmall { left_fft, right_fft } | Recipe::GoodThomasAlgorithmSmall { left_fft, right_fft } =>
                blen(right_fft) * est(left_fft) + blen(left_fft) * est(right_fft) + 6.0 * blen(r),
            Recipe::RadersAlgorithm { inner_fft } => 2.0 * est(inner_fft) + 12.0 * blen(r),
            Recipe::BluesteinsAlgorithm { inner_fft, .. } => 2.0 * est(inner_fft) + 14.0 * blen(inner_fft),
            Recipe::RadixN { factors, base_fft } => (blen(r) / blen(base_fft)) * est(base_fft) + 9.0 * blen(r) * factors.len() as f64,
            Recipe::Radix4 { k, base_fft } => (blen(r) / blen(base_fft)) * est(base_fft) + 9.0 * blen(r) * (*k as f64),
            Recipe::Dft(n) => 8.0 * (*n as f64) * (*n as f64),
            other => { let n = other.len() as f64; 5.0 * n * n.log2().max(1.0) }
        }
    }

    pub fn search(limit: usize, upto: usize, top: usize) -> Option<String> {
        let mut worst = (0.0f64, 0usize);
        for n in 2..limit {
            if let Some(x) = check(n) { return Some(x); }
            if n % 7 == 3 || n < 64 { if let Ok((c1, c2)) = measure(n) { let r = (c1.max(c2) as f64) / budget(n) * 64.0; if r > worst.0 { worst = (r, n); } } }
        }
        eprintln!("INFO opcount worst sampled ratio below {limit}: {:.2} n log2 n at n={}", worst.0, worst.1);
        if upto > limit && top > 0 {
            let mut planner = crate::FftPlannerScalar::<f64>::new();
            let mut cands: Vec<(f64, usize)> = Vec::new();
            for n in limit..upto {
                let r = quiet(|| planner.verif_design(n));
                let r = match r { Ok(r) => r, Err(e) => return Some(format!("FftPlannerScalar::<f64>::design_fft_for_len({n}) panicked: {}", panic_msg(e))) };
                cands.push((est(&r) / budget(n), n));
            }
            cands.sort_by(|a, b| b.0.partial_cmp(&a.0).unwrap());
            for &(ratio, n) in cands.iter().take(top) {
                if let Some(x) = check(n) { return Some(x); }
                if let Ok((c1, c2)) = measure(n) { eprintln!("INFO opcount candidate n={n} estimated {:.1} n log2 n, measured {:.2} n log2 n", ratio * 64.0, (c1.max(c2) as f64) / budget(n) * 64.0); }
            }
        }
        None
    }
}

pub mod foreign {
    use super::*;
    include!(concat!(env!("EJMAHLER_RUSTFFT_VERIF_DIR"), "/replay/incrate_foreign.rs"));
}

pub fn search(which: &str) -> Option<String> {
    if which.starts_with("foreign:") { return foreign::search(which); }
    if simd::known(which) { return simd::search(which); }
    if let Some(rest) = which.strip_prefix("compose:") {
        let v: Vec<usize> = rest.split(',').filter_map(|x| x.parse().ok()).collect();
        return compose(*v.get(0).unwrap_or(&48), *v.get(1).unwrap_or(&0) != 0);
    }
    if let Some(rest) = which.strip_prefix("opcount:") {
        let v: Vec<usize> = rest.split(',').map(|x| x.parse().unwrap_or(0)).collect();
        return opcount::search(*v.get(0).unwrap_or(&256), *v.get(1).unwrap_or(&0), *v.get(2).unwrap_or(&0));
    }
    if let Some(rest) = which.strip_prefix("dft_scalar:") { let big = rest.ends_with('+'); return dft_scalar(rest.trim_end_matches('+').parse().unwrap_or(128), big); }
    if let Some(rest) = which.strip_prefix("chunks:") { return chunks(rest.parse().unwrap_or(64)); }
    if which == "helpers_small" {
        for w in ["validate_and_iter", "fft_helper_inplace", "validate_and_iter_unroll2x", "fft_helper_inplace_unroll2x", "validate_and_zip", "fft_helper_immut",
                  "validate_and_zip_mut", "fft_helper_outofplace", "validate_and_zip_unroll2x", "fft_helper_immut_unroll2x", "validate_and_zip_mut_unroll2x",
                  "fft_helper_outofplace_unroll2x", "fft_error_inplace", "fft_error_outofplace", "fft_error_immut"] {
            if let Some(x) = super::search(w) { return Some(x); }
        }
        return None;
    }
    if let Some(rest) = which.strip_prefix("shapes:") { return shapes(rest.parse().unwrap_or(64)); }
    if which == "plan_history:quick" {
        return plan_history(&[5, 16, 25, 36, 37, 59, 64, 74, 100, 101, 128, 192, 193, 407], 2).or_else(|| plan_history(&[5, 25, 36, 37, 59, 64], 3));
    }
    if which == "plan_history:thorough" {
        return plan_history(&[2, 5, 16, 25, 36, 37, 59, 64, 74, 100, 101, 118, 125, 128, 192, 193, 256, 407, 625, 1234], 2).or_else(|| plan_history(&[5, 16, 25, 36, 37, 59, 64, 74, 128, 192, 193], 3));
    }
    if let Some(rest) = which.strip_prefix("partition:") {
        let limit: usize = rest.parse().unwrap_or(1 << 14);
        for n in 1..limit { if let Some(x) = check_partition(n) { return Some(x); } }
        for n in structured_lengths(1u64 << 40) { if let Some(x) = check_partition(n) { return Some(x); } }
        return None;
    }
    if let Some(rest) = which.strip_prefix("plan_scalar:") {
        let limit: usize = rest.parse().unwrap_or(1 << 10);
        for n in 0..limit { if let Some(x) = check_plan_scalar(n) { return Some(x); } }
        for n in structured_lengths(1u64 << 18) { if let Some(x) = check_plan_scalar(n) { return Some(x); } }
        return None;
    }
    if let Some(lim) = which.strip_prefix("scalar_pairs:") {
        // same for FftPlannerScalar<f64>: every ordered pair of lengths below the limit
        let lim: usize = lim.parse().unwrap_or(96);
        for a in 0..lim { for b in 0..lim {
            for (d1, d2) in [(FftDirection::Forward, FftDirection::Forward), (FftDirection::Inverse, FftDirection::Forward)] {
                let r = quiet(|| { let mut p = crate::FftPlannerScalar::<f64>::new(); let _ = p.plan_fft(a, d1); let f = p.plan_fft(b, d2); (f.len(), f.fft_direction()) });
                match r {
                    Err(e) => return Some(format!("FftPlannerScalar<f64>: plan_fft({}, {:?}) then plan_fft({}, {:?}) panicked: {}", a, d1, b, d2, panic_msg(e))),
                    Ok((l, d)) => if l != b || d != d2 { return Some(format!("FftPlannerScalar<f64>: plan_fft({}, {:?}) then plan_fft({}, {:?}) returned len {} direction {:?}", a, d1, b, d2, l, d)); },
                }
            }
        } }
        return None;
    }
    if let Some(lim) = which.strip_prefix("primroot:") {
        // stand-in for the ASSUMED contract of math_utils::primitive_root (Rader's index maps are permutations only if it returns a
        // generator): for every prime p below the limit the returned root has multiplicative order p - 1 (independent naive
        // factorization of p - 1, independent modular exponentiation)
        let lim: u64 = lim.parse().unwrap_or(1 << 16);
        fn mpow(mut b: u128, mut e: u128, m: u128) -> u128 { let mut r = 1u128; b %= m; while e > 0 { if e & 1 == 1 { r = r * b % m; } b = b * b % m; e >>= 1; } r }
        let mut sieve = vec![true; lim as usize + 1];
        for p in 2..=lim as usize {
            if !sieve[p] { continue; }
            let mut m = p * p; while m <= lim as usize { sieve[m] = false; m += p; }
            let g = match quiet(|| crate::math_utils::primitive_root(p as u64)) { Ok(Some(g)) => g, Ok(None) => return Some(format!("primitive_root({}) returned None", p)), Err(e) => return Some(format!("primitive_root({}) panicked: {}", p, panic_msg(e))) };
            if g == 0 || g >= p as u64 { return Some(format!("primitive_root({}) = {} is out of range", p, g)); }
            let mut rest = p - 1; let mut q = 2usize;
            while q * q <= rest { if rest % q == 0 { while rest % q == 0 { rest /= q; } if mpow(g as u128, ((p - 1) / q) as u128, p as u128) == 1 { return Some(format!("primitive_root({}) = {} is not a generator: {}^(({}-1)/{}) == 1 (mod {})", p, g, g, p, q, p)); } } q += 1; }
            if rest > 1 && mpow(g as u128, ((p - 1) / rest) as u128, p as u128) == 1 { return Some(format!("primitive_root({}) = {} is not a generator: {}^(({}-1)/{}) == 1 (mod {})", p, g, g, p, rest, p)); }
        }
        return None;
    }
    if which == "sqrt_limit" {
        // A-sqrt: for every m < 2^24, ((m*m) as f32).sqrt() as usize >= m  (so limit = that + 1 squared exceeds every n >= m^2 below (m+1)^2 by monotonicity)
        for m in 0u64..(1 << 24) { let n = m * m; if ((n as f32).sqrt() as u64) < m { return Some(format!("(n as f32).sqrt() as usize < sqrt(n) for n = {}", n)); } }
        return None;
    }
    match which {
        "MixedRadix" | "MixedRadixSmall" | "GoodThomasAlgorithm" | "GoodThomasAlgorithmSmall" => wrapper2(which),
        "Radix4" | "Radix3" | "RadersAlgorithm" | "BluesteinsAlgorithm" => wrapper1(which),
        _ => None,
    }
}
pub fn known(which: &str) -> bool {
    simd::known(which) || which.starts_with("opcount:") || which.starts_with("foreign:") || which.starts_with("compose:") || which.starts_with("dft_scalar:") || which.starts_with("partition:") || which.starts_with("plan_scalar:") || which.starts_with("plan_history:") || which.starts_with("shapes:") || which.starts_with("chunks:") || which == "helpers_small" || which == "sqrt_limit" || which.starts_with("primroot:") || which.starts_with("scalar_pairs:")
        || matches!(which, "MixedRadix" | "MixedRadixSmall" | "GoodThomasAlgorithm" | "GoodThomasAlgorithmSmall" | "Radix4" | "Radix3" | "RadersAlgorithm" | "BluesteinsAlgorithm")
}

// ---- SIMD planners (bounded stand-in: all SIMD kernels are outside both verifiers) -------------------------------------
// Compiled only when the replay crate enables the avx/sse features; run on whatever this CPU supports.
#[cfg(all(target_arch = "x86_64", feature = "sse", feature = "avx"))]
pub mod simd {
    use super::*;
    use num_traits::Float;

    fn bits<T: Float>(x: T) -> u64 { x.to_f64().unwrap().to_bits() }
    fn gen<T: FftNum + Float>(i: usize) -> Complex<T> { Complex::new(T::from_f64(((i * 7 + 3) % 11) as f64 - 5.0).unwrap(), T::from_f64(((i * 5 + 1) % 13) as f64 * 0.25).unwrap()) }
    fn close<T: FftNum + Float>(a: &[Complex<T>], b: &[Complex<T>], tol: f64) -> bool {
        if a.len() != b.len() { return false; }
        let mut num = 0.0f64; let mut den = 0.0f64;
        for (x, y) in a.iter().zip(b.iter()) {
            let (dr, di) = (x.re.to_f64().unwrap() - y.re.to_f64().unwrap(), x.im.to_f64().unwrap() - y.im.to_f64().unwrap());
            num += dr * dr + di * di; den += y.re.to_f64().unwrap().powi(2) + y.im.to_f64().unwrap().powi(2);
        }
        if !num.is_finite() { return false; }
        num.sqrt() <= tol * den.sqrt().max(1.0)
    }

    // one transform: canaries, immutable input, ill-shaped calls, chunk independence, agreement with the portable transform
    fn one<T: FftNum + Float>(desc: &str, f: &dyn Fft<T>, reference: &dyn Fft<T>, tol: f64) -> Option<String> {
        const G: usize = 8;
        let n = f.len();
        let canary = Complex::new(T::from_f64(-12345.5).unwrap(), T::from_f64(54321.25).unwrap());
        let guarded = |len: usize, off: usize| -> Vec<Complex<T>> { let mut v = vec![canary; len + 2 * G]; for (i, x) in v[G..G + len].iter_mut().enumerate() { *x = gen(i + off); } v };
        let intact = |v: &Vec<Complex<T>>, len: usize| -> bool { v[..G].iter().chain(v[G + len..].iter()).all(|x| bits(x.re) == bits(canary.re) && bits(x.im) == bits(canary.im)) };
        for entry in 0..3 {
            let adv = match entry { 0 => f.get_inplace_scratch_len(), 1 => f.get_outofplace_scratch_len(), _ => f.get_immutable_scratch_len() };
            let name = ["process_with_scratch", "process_outofplace_with_scratch", "process_immutable_with_scratch"][entry];
            // (a) shapes around the valid one
            let mut cases: Vec<(usize, usize, usize)> = vec![];
            for k in 1..=5usize { cases.push((k * n, k * n, adv)); }
            if n > 0 { cases.push((2 * n + 1, 2 * n + 1, adv)); cases.push((3 * n, 3 * n + n, adv)); cases.push((2 * n, 2 * n.max(1) - 1, adv)); if adv > 0 { cases.push((2 * n, 2 * n, adv - 1)); } cases.push((n - 1, n - 1, adv)); }
            for (dl, ol, sl) in cases {
                let well = n == 0 || (dl % n == 0 && (entry == 0 || ol == dl) && sl >= adv);
                let case = format!("{desc}.{name}(data.len()={dl}, output.len()={ol}, scratch.len()={sl}) [len {n}, advertised scratch {adv}]");
                eprintln!("CASE {case}");
                let (mut a, mut b, mut c) = (guarded(dl, 0), guarded(ol, 1000), guarded(sl, 2000));
                let a0 = a.clone();
                let before = super::volatile_bits(&a);
                let r = quiet(|| {
                    let (x, y, z) = (&mut a[G..G + dl], &mut b[G..G + ol], &mut c[G..G + sl]);
                    match entry { 0 => f.process_with_scratch(x, z), 1 => f.process_outofplace_with_scratch(x, y, z), _ => f.process_immutable_with_scratch(std::hint::black_box(&*x), y, z) }
                });
                if !intact(&a, dl) || !intact(&b, ol) || !intact(&c, sl) { return Some(format!("{case}: memory outside the caller's slices was written")); }
                if entry == 2 && super::volatile_bits(std::hint::black_box(&a)) != before { return Some(format!("{case}: the immutable input was modified")); }
                match r {
                    Ok(()) => {
                        if !well { return Some(format!("{case}: ill-shaped call returned normally")); }
                        // (b) every chunk equals the portable transform of that chunk (C01/C07, up to rounding)
                        if n > 0 {
                            let out: &[Complex<T>] = if entry == 0 { &a[G..G + dl] } else { &b[G..G + ol] };
                            for ch in 0..dl / n {
                                let mut r = a0[G + ch * n..G + (ch + 1) * n].to_vec();
                                let mut sc = vec![Complex::new(T::zero(), T::zero()); reference.get_inplace_scratch_len()];
                                reference.process_with_scratch(&mut r, &mut sc);
                                if !close(&out[ch * n..(ch + 1) * n], &r, tol) { return Some(format!("{case}: chunk {ch} differs from the portable (scalar-planner) transform of the same chunk beyond rounding")); }
                            }
                        }
                    }
                    Err(e) => if well { return Some(format!("{case}: well-shaped call panicked: {}", panic_msg(e))); },
                }
            }
            // (c) C08: with exactly the advertised scratch, the result is bit-for-bit independent of the initial contents of the scratch and
            // of the output buffer (NaN / infinity taint: any use of a stale value makes the output differ)
            if n > 0 {
                for k in [1usize, 2] {
                    let run = |fill: T| -> Vec<Complex<T>> {
                        let mut a: Vec<Complex<T>> = (0..k * n).map(gen).collect();
                        let mut b = vec![Complex::new(fill, fill); k * n];
                        let mut c = vec![Complex::new(fill, fill); adv];
                        match entry { 0 => f.process_with_scratch(&mut a, &mut c), 1 => f.process_outofplace_with_scratch(&mut a, &mut b, &mut c), _ => f.process_immutable_with_scratch(&a, &mut b, &mut c) }
                        if entry == 0 { a } else { b }
                    };
                    let clean = run(T::zero());
                    for (fname, fill) in [("NaN", T::nan()), ("+inf", T::infinity())] {
                        let dirty = run(fill);
                        if clean.iter().zip(dirty.iter()).any(|(x, y)| bits(x.re) != bits(y.re) || bits(x.im) != bits(y.im)) {
                            return Some(format!("{desc}.{name}: {k} chunk(s), scratch of exactly the advertised length {adv}: the output differs bit-for-bit when scratch and output start as {fname} instead of zero (a stale value is used)"));
                        }
                    }
                }
            }
        }
        None
    }

    macro_rules! sweep {
        ($planner:ident, $t:ty, $limit:expr, $tol:expr) => {{
            if let Ok(mut p) = crate::$planner::<$t>::new() {
                // every length below the limit (direction by parity; both directions up to 72, where every butterfly and the first mixed-radix
                // combinations live), then the structured lengths that reach the large fixed-size kernels and deep radix chains
                let mut todo: Vec<(usize, FftDirection)> = Vec::new();
                for n in 0..$limit {
                    let d = if n % 2 == 0 { FftDirection::Forward } else { FftDirection::Inverse };
                    todo.push((n, d));
                    if n <= 72 { todo.push((n, d.opposite_direction())); }
                }
                for &n in &[384usize, 432, 486, 512, 576, 625, 648, 729, 768, 1024, 1296, 2048, 2187, 4096] {
                    if n >= $limit { todo.push((n, FftDirection::Forward)); todo.push((n, FftDirection::Inverse)); }
                }
                for (n, d) in todo {
                    let desc = format!("{}::<{}>.plan_fft({}, {:?})", stringify!($planner), stringify!($t), n, d);
                    eprintln!("CASE {desc}");
                    let r = quiet(|| p.plan_fft(n, d));
                    let f = match r { Err(e) => return Some(format!("{desc} panicked: {}", panic_msg(e))), Ok(f) => f };
                    if f.len() != n { return Some(format!("{desc}.len() = {}", f.len())); }
                    if f.fft_direction() != d { return Some(format!("{desc}.fft_direction() = {:?}", f.fft_direction())); }
                    let worst = f.get_inplace_scratch_len().max(f.get_outofplace_scratch_len()).max(f.get_immutable_scratch_len());
                    if worst > 12 * n + 64 { return Some(format!("{desc} advertises scratch {} > 12n+64", worst)); }
                    let reference = crate::FftPlannerScalar::<$t>::new().plan_fft(n, d);
                    if let Some(x) = one::<$t>(&desc, &*f, &*reference, $tol) { return Some(x); }
                }
            }
        }};
    }
    // history on one SIMD planner: pairs over related lengths
    macro_rules! history {
        ($planner:ident, $t:ty, $pool:expr, $tol:expr) => {{
            if crate::$planner::<$t>::new().is_ok() {
                let dirs = [FftDirection::Forward, FftDirection::Inverse];
                for &n1 in $pool.iter() { for &d1 in &dirs { for &n2 in $pool.iter() { for &d2 in &dirs {
                    let desc = format!("{}::<{}>: plan_fft({}, {:?}) then plan_fft({}, {:?})", stringify!($planner), stringify!($t), n1, d1, n2, d2);
                    eprintln!("CASE {desc}");
                    let r = quiet(|| { let mut p = crate::$planner::<$t>::new().unwrap(); let _ = p.plan_fft(n1, d1); p.plan_fft(n2, d2) });
                    let f = match r { Err(e) => return Some(format!("{desc} panicked: {}", panic_msg(e))), Ok(f) => f };
                    if f.len() != n2 { return Some(format!("{desc}: second transform has len() = {}", f.len())); }
                    if f.fft_direction() != d2 { return Some(format!("{desc}: second transform has fft_direction() = {:?}", f.fft_direction())); }
                    let reference = crate::FftPlannerScalar::<$t>::new().plan_fft(n2, d2);
                    let mut a: Vec<Complex<$t>> = (0..n2).map(gen).collect();
                    let mut b = a.clone();
                    let mut s1 = vec![Complex::new(0.0, 0.0); f.get_inplace_scratch_len()];
                    let mut s2 = vec![Complex::new(0.0, 0.0); reference.get_inplace_scratch_len()];
                    f.process_with_scratch(&mut a, &mut s1); reference.process_with_scratch(&mut b, &mut s2);
                    if !close(&a, &b, $tol) { return Some(format!("{desc}: second transform differs from the portable transform beyond rounding")); }
                }}}}
            }
        }};
    }

    pub fn search(which: &str) -> Option<String> {
        let limit: usize = which.rsplit(':').next().and_then(|x| x.parse().ok()).unwrap_or(64);
        // rounding error must not grow faster than ~ eps * log2(n): a few large lengths against the portable transform with a tolerance tied
        // to the machine epsilon (16 eps log2 n, relative L2; the clean tree stays below 1/20 of it)
        macro_rules! large {
            ($planner:ident, $t:ty, $eps:expr) => {{
                if let Ok(mut p) = crate::$planner::<$t>::new() {
                    let sizes: &[usize] = if limit > 600 { &[131072, 196608, 262144, 327680, 229376] } else { &[131072] };
                    for &n in sizes { for d in [FftDirection::Forward, FftDirection::Inverse] {
                        let desc = format!("{}::<{}>.plan_fft({}, {:?})", stringify!($planner), stringify!($t), n, d);
                        eprintln!("CASE {desc} (large-length accuracy)");
                        let f = p.plan_fft(n, d);
                        let reference = crate::FftPlannerScalar::<$t>::new().plan_fft(n, d);
                        let mut a: Vec<Complex<$t>> = (0..n).map(gen).collect();
                        let mut b = a.clone();
                        let mut s1 = vec![Complex::new(0.0, 0.0); f.get_inplace_scratch_len()];
                        let mut s2 = vec![Complex::new(0.0, 0.0); reference.get_inplace_scratch_len()];
                        f.process_with_scratch(&mut a, &mut s1); reference.process_with_scratch(&mut b, &mut s2);
                        let tol = 16.0 * $eps * (n as f64).log2();
                        { let mut nu = 0.0f64; let mut de = 0.0f64; for (x, y) in a.iter().zip(b.iter()) { let (dr, di) = ((x.re - y.re) as f64, (x.im - y.im) as f64); nu += dr * dr + di * di; de += (y.re as f64).powi(2) + (y.im as f64).powi(2); } eprintln!("INFO {desc}: relative L2 distance to the portable transform {:e} (tolerance {:e})", (nu / de.max(1e-300)).sqrt(), tol); }
                        if !close(&a, &b, tol) { return Some(format!("{desc}: differs from the portable transform by more than 16 eps log2(n) = {:e} (relative L2): the rounding error grows with the length", tol)); }
                    }}
                }
            }};
        }
        if which.starts_with("simd_sse:") { sweep!(FftPlannerSse, f32, limit, 2e-4); sweep!(FftPlannerSse, f64, limit, 1e-11); large!(FftPlannerSse, f32, 1.1920929e-7); large!(FftPlannerSse, f64, 2.220446049250313e-16); return None; }
        if which.starts_with("simd_avx:") { sweep!(FftPlannerAvx, f32, limit, 2e-4); sweep!(FftPlannerAvx, f64, limit, 1e-11); large!(FftPlannerAvx, f32, 1.1920929e-7); large!(FftPlannerAvx, f64, 2.220446049250313e-16); return None; }
        if which.starts_with("simd_mem:") {
            // run under valgrind/memcheck by run.py: every buffer is a heap block of EXACTLY the required size, so a read or write one
            // element outside a caller's slice (which the canary pads of `one` cannot see for reads) is an invalid access
            macro_rules! mem {
                ($planner:ident, $t:ty) => {{
                    if let Ok(mut p) = crate::$planner::<$t>::new() {
                        for n in 1..limit {
                            let d = if n % 2 == 0 { FftDirection::Forward } else { FftDirection::Inverse };
                            let f = p.plan_fft(n, d);
                            for k in 1..=2usize {
                                for entry in 0..3 {
                                    let adv = match entry { 0 => f.get_inplace_scratch_len(), 1 => f.get_outofplace_scratch_len(), _ => f.get_immutable_scratch_len() };
                                    eprintln!("CASE {}::<{}>.plan_fft({}, {:?}) entry {} chunks {} (exact-size heap buffers, scratch {})", stringify!($planner), stringify!($t), n, d, entry, k, adv);
                                    let mut a: Box<[Complex<$t>]> = (0..k * n).map(gen::<$t>).collect::<Vec<_>>().into_boxed_slice();
                                    let mut b: Box<[Complex<$t>]> = vec![Complex::new(0.0, 0.0); k * n].into_boxed_slice();
                                    let mut c: Box<[Complex<$t>]> = vec![Complex::new(0.0, 0.0); adv].into_boxed_slice();
                                    match entry { 0 => f.process_with_scratch(&mut a, &mut c), 1 => f.process_outofplace_with_scratch(&mut a, &mut b, &mut c), _ => f.process_immutable_with_scratch(&a, &mut b, &mut c) }
                                    std::hint::black_box((&a, &b, &c));
                                }
                            }
                        }
                    }
                }};
            }
            mem!(FftPlannerAvx, f32); mem!(FftPlannerAvx, f64); mem!(FftPlannerSse, f32); mem!(FftPlannerSse, f64);
            return None;
        }
        if which.starts_with("simd_pairs") {
            // history quantifier of C10/C04 on the SIMD planners, shape level only (no transform is executed): for every ordered pair
            // (a, b) of lengths below the first limit, and for the AVX planner additionally every pair a | b of 11-smooth lengths
            // below the second limit, one planner is asked for a and then for b (same direction and opposite direction): no panic,
            // the second answer has length b and the requested direction
            let mut it = which.split(':').skip(1);
            let small: usize = it.next().and_then(|x| x.parse().ok()).unwrap_or(96);
            let smooth_limit: usize = it.next().and_then(|x| x.parse().ok()).unwrap_or(4096);
            macro_rules! pair {
                ($planner:ident, $ty:ty, $a:expr, $b:expr) => {{
                    for (d1, d2) in [(FftDirection::Forward, FftDirection::Forward), (FftDirection::Inverse, FftDirection::Forward)] {
                        let (a, b) = ($a, $b);
                        let r = quiet(|| { let mut p = crate::$planner::<$ty>::new().unwrap(); let _ = p.plan_fft(a, d1); let f = p.plan_fft(b, d2);
                            (f.len(), f.fft_direction(), f.get_inplace_scratch_len().max(f.get_outofplace_scratch_len()).max(f.get_immutable_scratch_len())) });
                        match r {
                            Err(e) => return Some(format!("{}<{}>: plan_fft({}, {:?}) then plan_fft({}, {:?}) panicked: {}", stringify!($planner), stringify!($ty), a, d1, b, d2, panic_msg(e))),
                            Ok((l, d, sc)) => {
                                if l != b || d != d2 { return Some(format!("{}<{}>: plan_fft({}, {:?}) then plan_fft({}, {:?}) returned len {} direction {:?}", stringify!($planner), stringify!($ty), a, d1, b, d2, l, d)); }
                                if sc > 12 * b + 64 { return Some(format!("{}<{}>: plan_fft({}, {:?}) then plan_fft({}, {:?}) advertises a scratch length of {} > 12 n + 64 = {}", stringify!($planner), stringify!($ty), a, d1, b, d2, sc, 12 * b + 64)); }
                            },
                        }
                    }
                }};
            }
            for a in 0..small { for b in 0..small {
                pair!(FftPlannerAvx, f32, a, b); pair!(FftPlannerAvx, f64, a, b); pair!(FftPlannerSse, f32, a, b); pair!(FftPlannerSse, f64, a, b);
            } }
            let mut smooth: Vec<usize> = Vec::new();
            for n in 2..smooth_limit { let mut m = n; for p in [2usize, 3, 5, 7, 11] { while m % p == 0 { m /= p; } } if m == 1 { smooth.push(n); } }
            for &a in &smooth { for &b in &smooth { if b > a && b % a == 0 { pair!(FftPlannerAvx, f32, a, b); pair!(FftPlannerAvx, f64, a, b); } } }
            // workspace clause of C05 under history: a prime b (a length the SIMD planners may send to Bluestein's algorithm) requested after
            // a cached a = 2^i 3^j in [2b-1, 12b] (every length that planner's Bluestein search can consider as the inner length)
            let prime_limit: usize = it.next().and_then(|x| x.parse().ok()).unwrap_or(0);
            for b in 37..prime_limit {
                if !is_prime_naive(b) { continue; }
                let mut p2 = 4usize;
                while p2 <= 12 * b { let mut a = p2; while a <= 12 * b { if a >= 2 * b - 1 { pair!(FftPlannerAvx, f32, a, b); pair!(FftPlannerAvx, f64, a, b); pair!(FftPlannerSse, f64, a, b); } a *= 3; } p2 *= 2; }
            }
            return None;
        }
        if which.starts_with("simd_history") {
            // C10, last clause: planners fed the same request sequence return transforms with bit-identical outputs.  Sequences that put
            // several admissible choices into a planner's caches before the request that may pick among them: two lengths in
            // [2p-1, next_pow2(2p-1)] and then the prime p (Bluestein inner length), and pairs of related smooth lengths; 6 replicas each.
            macro_rules! replicas {
                ($planner:ident, $t:ty) => {{
                    if crate::$planner::<$t>::new().is_ok() {
                        let mut seqs: Vec<Vec<usize>> = Vec::new();
                        for &p in &[59usize, 83, 107] {
                            let lo = 2 * p - 1; let hi = lo.next_power_of_two();
                            let cands: Vec<usize> = (lo..=hi).filter(|&m| { let mut x = m; for q in [2usize, 3, 5, 7] { while x % q == 0 { x /= q; } } x == 1 }).collect();
                            for i in 0..cands.len() { for j in 0..cands.len() { if i != j && (i + j) % 2 == 1 { seqs.push(vec![cands[i], cands[j], p]); } } }
                        }
                        for s in [vec![16usize, 64, 128], vec![25, 100, 50], vec![36, 72, 144, 37], vec![49, 98, 197]] { seqs.push(s); }
                        for seq in seqs {
                            let last = *seq.last().unwrap();
                            let mut first: Option<Vec<u64>> = None;
                            for rep in 0..6 {
                                let desc = format!("{}::<{}>: requests {:?} (Forward), replica {}", stringify!($planner), stringify!($t), seq, rep);
                                eprintln!("CASE {desc}");
                                let r = quiet(|| { let mut p = crate::$planner::<$t>::new().unwrap(); let mut f = p.plan_fft_forward(seq[0]); for &n in &seq[1..] { f = p.plan_fft_forward(n); } f });
                                let f = match r { Err(e) => return Some(format!("{desc} panicked: {}", panic_msg(e))), Ok(f) => f };
                                let mut a: Vec<Complex<$t>> = (0..last).map(gen).collect();
                                let mut sc = vec![Complex::new(0.0, 0.0); f.get_inplace_scratch_len()];
                                f.process_with_scratch(&mut a, &mut sc);
                                let b: Vec<u64> = a.iter().flat_map(|c| [bits(c.re), bits(c.im)]).collect();
                                match &first { None => first = Some(b), Some(x) => if *x != b { return Some(format!("{desc}: the transform of length {last} returned after the same request sequence differs bit for bit from the one replica 0 got (planner answers depend on something other than the request history)")); } }
                            }
                        }
                    }
                }};
            }
            replicas!(FftPlannerAvx, f32); replicas!(FftPlannerAvx, f64); replicas!(FftPlannerSse, f32); replicas!(FftPlannerSse, f64);
            let pool: Vec<usize> = if limit > 100 { vec![5, 16, 25, 35, 36, 37, 50, 64, 70, 74, 101, 125, 128, 192, 193, 250, 407, 625] } else { vec![5, 16, 25, 35, 37, 50, 64, 70, 125, 128, 193] };
            history!(FftPlannerAvx, f32, pool, 2e-4); history!(FftPlannerAvx, f64, pool, 1e-11);
            history!(FftPlannerSse, f32, pool, 2e-4); history!(FftPlannerSse, f64, pool, 1e-11);
            return None;
        }
        None
    }
    pub fn known(which: &str) -> bool { which.starts_with("simd_sse:") || which.starts_with("simd_avx:") || which.starts_with("simd_history") || which.starts_with("simd_pairs") || which.starts_with("simd_mem:") }
}
#[cfg(not(all(target_arch = "x86_64", feature = "sse", feature = "avx")))]
pub mod simd {
    pub fn search(_which: &str) -> Option<String> { None }
    pub fn known(_which: &str) -> bool { false }
}
