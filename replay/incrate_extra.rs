// further searches (algorithms, planner, math); filled in as units are added
pub fn search(_which: &str) -> Option<String> { None }
pub fn known(_which: &str) -> bool { false }
