#!/usr/bin/env python3
"""Driver.  `run.py check <Cnn> [--tier quick|thorough]` is what MANIFEST.json registers.

exit 0  every obligation serving the property was discharged on /repo's current working tree
exit 1  an obligation failed: prints `VIOLATION property=<id> replay=<path>[ no-failing-input-found]`
exit 2  INCONCLUSIVE (lost anchor, unsupported construct, tool error, timeout) -- never an alarm
"""
import argparse
import concurrent.futures as cf
import glob
import hashlib
import json
import os
import re
import shutil
import subprocess
import sys
import time

ROOT = os.path.dirname(os.path.abspath(__file__))
sys.path.insert(0, os.path.join(ROOT, 'vx'))
sys.path.insert(0, os.path.join(ROOT, 'kani'))
sys.path.insert(0, ROOT)
import extract  # noqa: E402

REPO = os.environ.get('VERIF_REPO', '/repo')
BUILD = os.environ.get('VERIF_BUILD') or os.path.join(ROOT, 'build')  # scratch build output (VERIF_BUILD: used by tools/muttest.sh so that runs against a scratch worktree do not share cargo target dirs with runs against /repo)
EVID = os.environ.get('VERIF_EVIDENCE') or os.path.join(ROOT, 'evidence')  # VERIF_EVIDENCE: scratch-worktree runs must not overwrite the evidence of /repo
REPLAY_DIR = os.path.join(EVID, 'replay')

VERIFICATION_MSG = re.compile(
    r'^(precondition not satisfied|postcondition not satisfied|assertion failed|'
    r'invariant not satisfied|loop invariant|possible arithmetic underflow/overflow|'
    r'possible division by zero|decreases not satisfied|possible bit shift underflow/overflow|'
    r'requires not satisfied|precondition not met|index out of bounds|unreachable|could not prove termination|recursive call .* decreases|'
    r'cannot show invariant|failed to (prove|show)|constructed value may fail to meet its declared type invariant)')
RLIMIT_MSG = re.compile(r'(Resource limit|rlimit|timed out|timeout)', re.I)

TRUSTED_BASE = [
    'Verus 0.2026.09.13 + Z3 (verifier soundness)',
    'extractor vx/extract.py + scanner vx/rsscan.py and the rewrite rules R1-R12 (DESIGN 2.1)',
    'prelude specs (vx/prelude/*.vx): verif_assert/verif_panic primitives, std specs from vstd',
    'A-size: sizes stay below MAXE = 2^57 elements; usize is 64 bits (x86_64)',
    'rustc borrow checker for &-immutability',
]


def units_for(prop, tier):
    res = []
    for p in sorted(glob.glob(os.path.join(ROOT, 'vx', 'units', '*.vx'))):
        name = os.path.basename(p)[:-3]
        meta = extract.unit_meta(name)
        if (prop in meta['props'] or prop in meta.get('clauseprops', [])) and (tier == 'thorough' or meta['tier'] == 'quick'):
            for m in meta['modes']:
                res.append((name, m))
    return res


RETRY_SEEDS = (17, 4242)


def run_verus(path, timeout=3600, extra=()):
    cmd = ['verus', os.path.basename(path), '--output-json', '--time', '--error-format=json', '--num-threads', '4'] + list(extra)
    t0 = time.time()
    try:
        p = subprocess.run(cmd, cwd=os.path.dirname(path), capture_output=True, text=True, timeout=timeout)
    except subprocess.TimeoutExpired:
        return None, None, 'timeout', time.time() - t0, ' '.join(cmd)
    js = None
    try:
        js = json.loads(p.stdout)
    except Exception:
        pass
    diags = []
    raw = []
    for ln in p.stderr.split('\n'):
        ln = ln.strip()
        if ln.startswith('{'):
            try:
                diags.append(json.loads(ln))
                continue
            except Exception:
                pass
        if ln:
            raw.append(ln)
    return js, diags, '\n'.join(raw), time.time() - t0, ' '.join(cmd)


def analyse(unit, mode, gen, text, linemap, js, diags, raw, fname):
    """-> dict(status, failures[], obligations, discharged, ...)"""
    res = {'unit': unit, 'mode': mode, 'status': 'ok', 'failures': [], 'tool_errors': [],
           'obligations': 0, 'discharged': 0, 'smt_ms': 0, 'functions': gen.functions,
           'rules': gen.rule_counts, 'clauses': gen.clauses, 'log': gen.log}
    if js is None:
        res['status'] = 'inconclusive'
        res['tool_errors'].append('no JSON from verus: ' + (raw or '')[:500])
        return res
    vr = js.get('verification-results', {})
    # per-function queries
    fb = []
    try:
        for mod in js['times-ms']['smt']['smt-run-module-times']:
            fb += mod.get('function-breakdown', [])
        res['smt_ms'] = js['times-ms']['smt'].get('smt-run', 0)
    except Exception:
        pass
    res['verified_fns'] = vr.get('verified', 0)
    res['error_fns'] = vr.get('errors', 0)
    res['obligations'] = vr.get('verified', 0) + vr.get('errors', 0)
    res['discharged'] = vr.get('verified', 0)
    res['queries'] = [{'function': f.get('function'), 'ms': f.get('time'), 'ok': f.get('success')} for f in fb]
    for d in diags or []:
        if d.get('level') != 'error':
            continue
        msg = d.get('message', '')
        if msg.startswith('aborting due to'):
            continue
        spans = [s for s in d.get('spans', []) if s.get('file_name') == fname]
        prim = [s for s in spans if s.get('is_primary')] or spans
        origin = None
        if prim:
            ln = prim[0]['line_start']
            if 1 <= ln <= len(linemap) and linemap[ln - 1]:
                origin = linemap[ln - 1]
        if d.get('code') is None and VERIFICATION_MSG.match(msg):
            # which function? take the label of the line
            fn = origin[3] if origin and origin[3] else _enclosing_fn(text, prim[0]['line_start'] if prim else 0)
            # all spans -> origins (call site + callee clause)
            where = []
            for s in d.get('spans', []):
                if s.get('file_name') == fname:
                    o = linemap[s['line_start'] - 1] if 1 <= s['line_start'] <= len(linemap) else None
                    if o:
                        where.append('%s:%s:%d%s' % (o[0], o[1], o[2], (' (' + s['label'] + ')') if s.get('label') else ''))
                else:
                    where.append('%s:%d%s' % (s.get('file_name'), s.get('line_start'), (' (' + s['label'] + ')') if s.get('label') else ''))
            tags = set()
            tl = text.split('\n')
            for sp in d.get('spans', []):
                if sp.get('file_name') == fname:
                    for ln_ in range(sp['line_start'], sp.get('line_end', sp['line_start']) + 1):
                        if 1 <= ln_ <= len(tl):
                            tags.update(re.findall(r'@(C\d\d)\b', tl[ln_ - 1]))
            kind = msg.split(':')[0]
            oname = '%s[%s]/%s/%s@%s' % (unit, mode, fn, kind.replace(' ', '-'),
                                         ('%s:%d' % (origin[1], origin[2])) if origin else '?')
            res['failures'].append({'obligation': oname, 'function': fn, 'message': msg, 'where': where, 'tags': sorted(tags),
                                    'rendered': d.get('rendered', '')})
        elif RLIMIT_MSG.search(msg):
            res['tool_errors'].append('rlimit: ' + msg)
        else:
            res['tool_errors'].append((d.get('rendered') or msg)[:1500])
    if res['failures']:
        res['status'] = 'fail'
    elif res['tool_errors'] or vr.get('encountered-vir-error') or not vr.get('success', False):
        res['status'] = 'inconclusive'
        if not res['tool_errors']:
            res['tool_errors'].append('verus reported no success and no classified error; raw: ' + (raw or '')[:800])
    elif res['obligations'] == 0:
        res['status'] = 'inconclusive'
        res['tool_errors'].append('vacuity guard: zero functions verified')
    return res


def _enclosing_fn(text, line):
    lines = text.split('\n')
    for i in range(min(line, len(lines)) - 1, -1, -1):
        m = re.search(r'\bfn\s+(\w+)', lines[i])
        if m:
            return m.group(1)
    return '?'


def run_unit(unit, mode, outdir, extra=()):
    t0 = time.time()
    try:
        gen, text, linemap = extract.generate(unit, mode, REPO)
    except extract.Inconclusive as e:
        return {'unit': unit, 'mode': mode, 'status': 'inconclusive', 'failures': [], 'tool_errors': ['extractor: %s' % e],
                'obligations': 0, 'discharged': 0, 'smt_ms': 0, 'functions': [], 'rules': {}, 'clauses': 0, 'log': [], 'wall_s': time.time() - t0}
    except Exception as e:  # scanner crash on unexpected source = inconclusive, never an alarm
        return {'unit': unit, 'mode': mode, 'status': 'inconclusive', 'failures': [], 'tool_errors': ['extractor crash: %r' % e],
                'obligations': 0, 'discharged': 0, 'smt_ms': 0, 'functions': [], 'rules': {}, 'clauses': 0, 'log': [], 'wall_s': time.time() - t0}
    fname = '%s_%s.rs' % (unit, mode)
    path = os.path.join(outdir, fname)
    with open(path, 'w') as f:
        f.write(text)
    # Memo of ACCEPTED verifier runs, keyed by the sha256 of the complete generated text (prelude + annotations + the functions
    # just extracted from the working tree) and the verifier binary: several properties share units, and an identical input text
    # has the same verification conditions. Extraction always runs; failures are never memoized.
    ckey = hashlib.sha256((text + '\0' + _verus_id()).encode()).hexdigest()
    cdir = os.path.join(BUILD, 'vx-cache')
    cfile = os.path.join(cdir, ckey + '.json')
    if not extra and os.environ.get('VERIF_VX_NOCACHE') != '1' and os.path.exists(cfile):
        try:
            r = json.load(open(cfile))
            r['memoized'] = 'verifier run on a byte-identical generated file earlier in this build directory (sha256 %s)' % ckey[:16]
            r['wall_s'] = round(time.time() - t0, 2)
            r['generated'] = path
            r['functions'] = gen.functions
            r['log'] = gen.log
            return r
        except Exception:
            pass
    js, diags, raw, wall, cmd = run_verus(path, extra=extra)
    if raw == 'timeout' and js is None and diags is None:
        r = {'unit': unit, 'mode': mode, 'status': 'inconclusive', 'failures': [], 'tool_errors': ['verus timeout'],
             'obligations': 0, 'discharged': 0, 'smt_ms': 0, 'functions': gen.functions, 'rules': gen.rule_counts, 'clauses': gen.clauses, 'log': gen.log}
    else:
        r = analyse(unit, mode, gen, text, linemap, js, diags, raw, fname)
        if getattr(gen, 'pin_failures', None):
            # a pinned (assumed) text changed: only failures that do not rest on assumed contracts (frame obligations) are kept
            keep = [f for f in r['failures'] if str(f.get('function', '')).startswith('frame:')]
            r['failures'] = keep
            if keep:
                r['status'] = 'fail'
            else:
                r['status'] = 'inconclusive'
            r['tool_errors'] = list(r.get('tool_errors', [])) + ['extractor: ' + '; '.join(gen.pin_failures)]
        # Solver-instability guard: an obligation counts as failed only if it fails under every solver seed tried.
        # Sound in the direction that matters: one accepted run is a proof; a real violation fails under every seed.
        retried = []
        rlimit_only = r['status'] == 'inconclusive' and r.get('tool_errors') and all(str(e).startswith('rlimit') for e in r['tool_errors'])
        if (r['status'] == 'fail' or rlimit_only) and not extra and not os.environ.get('VERIF_NORETRY'):
            for sd in RETRY_SEEDS:
                js2, diags2, raw2, wall2, cmd2 = run_verus(path, extra=['--smt-option', 'smt.random_seed=%d' % sd])
                if raw2 == 'timeout' and js2 is None:
                    break
                r2 = analyse(unit, mode, gen, text, linemap, js2, diags2, raw2, fname)
                retried.append({'seed': sd, 'status': r2['status'], 'failures': len(r2['failures'])})
                if r2['status'] == 'ok':
                    r2['unstable_obligations'] = sorted(set(f['obligation'] for f in r['failures']))
                    r = r2
                    break
                if r2['status'] == 'fail':
                    keep = set(f.get('function') for f in r2['failures'])
                    both = [f for f in r['failures'] if f.get('function') in keep]
                    if both:
                        r['failures'] = both
        if retried:
            r['seed_retries'] = retried
    r['wall_s'] = round(time.time() - t0, 2)
    r['cmd'] = cmd
    r['generated'] = path
    r['sha256'] = hashlib.sha256(text.encode()).hexdigest()
    r['assumption_scan'] = scan_assumptions(text)
    if r['status'] == 'ok' and not extra and not r.get('seed_retries'):
        try:
            os.makedirs(cdir, exist_ok=True)
            with open(cfile + '.tmp%d' % os.getpid(), 'w') as fh:
                json.dump({k: v for k, v in r.items() if k not in ('functions', 'log')}, fh)
            os.replace(cfile + '.tmp%d' % os.getpid(), cfile)
        except Exception:
            pass
    return r


_VID = []


def _verus_id():
    if not _VID:
        try:
            p = shutil.which('verus') or 'verus'
            st = os.stat(os.path.realpath(p))
            _VID.append('%s:%d:%d' % (os.path.realpath(p), st.st_size, int(st.st_mtime)))
        except Exception:
            _VID.append('verus')
    return _VID[0]


ASSUME_RE = re.compile(r'\b(assume\s*\(|admit\s*\(|external_body|assume_specification|verifier::external\b|exec_allows_no_decreases_clause)')


def scan_assumptions(text):
    hits = []
    lines = text.split('\n')
    for i, ln in enumerate(lines):
        if ASSUME_RE.search(ln) and not ln.strip().startswith('//'):
            # name the item: next line with fn
            ctx = ''
            for j in range(i, min(i + 4, len(lines))):
                m = re.search(r'\bfn\s+(\w+)|assume_specification.*\[(.*?)\]', lines[j])
                if m:
                    ctx = m.group(1) or m.group(2)
                    break
            hits.append('%s: %s' % (ASSUME_RE.search(ln).group(1).strip('( '), ctx or ln.strip()[:80]))
    return sorted(set(hits))


# bounded native checks on the real crate (replay crate): stand-ins for ASSUMED contracts, never counted as proved
BOUNDED = [
    # name, properties, quick arg, thorough arg, stands in for
    ('partition', ['C04'], 'partition:16384', 'partition:1048576',
     'declared iterator desugarings of PrimeFactors::has_factors_leq / has_factors_gt / product_above (verified from their pinned one-line text) and the pinned primitives inside the verified partition_factors (iter().all, derived clone, first_mut); cross-check of partition_factors itself; bound: all n below the limit plus structured prime-power products below 2^40'),
    ('plan_scalar', ['C04', 'C05', 'C10', 'C13', 'C14'], 'plan_scalar:1024', 'plan_scalar:12288',
     'assumed constructor contracts of the 20 butterflies and pinned iterator one-liners of the planner, end to end through FftPlannerScalar<f64>::plan_fft (both directions, fresh planner): no panic, len, direction, scratch <= 12n+64; bound: all n below the limit plus structured lengths below 2^18'),
    ('opcount', ['C05'], 'opcount:600,262144,6', 'opcount:3000,1048576,12',
     'operation-count clause of C05 (not decided by any contract): an instrumented element type counts every +, -, * of one chunk of the real FftPlannerScalar transform (in-place and immutable-input entry points) against 64 n log2 n: every n below the first limit; additionally the 6 (thorough: 12) lengths below 2^18 (thorough: 2^20) whose REAL recipe (read through the verif_design hook, no twiddles built) has the highest estimated cost ratio - the verdict is always the measured count'),
    ('plan_history', ['C06', 'C10'], 'plan_history:quick', 'plan_history:thorough',
     'history quantifier of C10/C06 on FftPlannerScalar<f64>: every request sequence of length <= 2 over 14 related lengths x 2 directions and of length 3 over 6 lengths x 2 directions (thorough: 20 / 11 lengths): no panic, right length and direction, output bit-identical to a fresh planner'),
    ('shapes', ['C03', 'C09', 'C15'], 'shapes:96', 'shapes:700',
     'real transforms (all 21 butterflies, Dft, every FftPlannerScalar<f64> length below the limit) called through the three explicit-scratch entry points with canary-guarded caller buffers in every shape around the valid one (data lengths 0,1,n-1,n,n+1,2n-1,2n,2n+1,3n; output equal / +-1 / +-n; scratch 0, adv-1, adv, adv+1): ill-shaped panics, well-shaped returns, canaries and immutable input intact; debug-assertion UB checks of get_unchecked abort the run and are reported'),
    ('helpers_small', ['C03', 'C07', 'C09', 'C15'], 'helpers_small', 'helpers_small',
     'the 15 helper functions of array_utils/fft_helper/common against the executable reading of their contracts: all data/output lengths <= 12 (zip: <= 8), chunk sizes <= 5, scratch <= 3 (exhaustive in that box); up to 12 chunks'),
    ('chunks', ['C07', 'C12'], 'chunks:96', 'chunks:700',
     'C07 on real transforms (21 butterflies, Dft, every FftPlannerScalar<f64> length below the limit): a k-chunk call (k <= 6) equals k single-chunk calls bit for bit on the three explicit-scratch entry points'),
    ('simd_sse', ['C01', 'C03', 'C04', 'C06', 'C07', 'C08', 'C09', 'C13', 'C15'], 'simd_sse:260', 'simd_sse:1100',
     'SIMD register arithmetic is outside both verifiers: FftPlannerSse<f32|f64> on this CPU, every length below the limit (direction by parity, both directions up to 72) plus 14 structured lengths up to 4096 in both directions (the large fixed-size kernels, deep radix chains): plans without panic, len/direction/scratch<=12n+64; through the three explicit-scratch entry points with canary-guarded buffers: 1..5 chunks and ill-shaped variants, canaries and immutable input intact, ill-shaped panics, every chunk equals the portable (scalar planner) transform of that chunk up to rounding (2e-4 f32 / 1e-11 f64 relative L2); with exactly the advertised scratch the output is bit-identical whether scratch and output start as zero, NaN or +inf (C08); at length 131072 (thorough: five lengths up to 327680) the distance to the portable transform stays below 16 eps log2 n (error growth with n)', 'avx,sse'),
    ('simd_avx', ['C01', 'C03', 'C04', 'C06', 'C07', 'C08', 'C09', 'C13', 'C15'], 'simd_avx:336', 'simd_avx:1100',
     'same for FftPlannerAvx<f32|f64> (this CPU: avx2+fma)', 'avx,sse'),
    ('simd_mem', ['C03', 'C15'], 'simd_mem:256', 'simd_mem:1100',
     'memory safety of the SIMD kernels at run time, READS included (the canary pads of simd_sse / simd_avx only see writes): the replay binary runs under valgrind memcheck; FftPlannerAvx and FftPlannerSse, f32 and f64, every length below the limit, 1 and 2 chunks, the three explicit-scratch entry points, every buffer a heap block of exactly the required size - an access outside a caller buffer is an invalid read / write', 'avx,sse', 'valgrind'),
    ('simd_pairs', ['C04', 'C05', 'C06', 'C10', 'C12'], 'simd_pairs:160:10000:1200', 'simd_pairs:400:40000:2400',
     'history quantifier of C10 on the SIMD planners at shape level (stand-in wherever a planner proof is lost to an unsupported rewrite): every ordered pair of requests below the first limit (AVX and SSE planners, f32 and f64, same and opposite direction) and, for the AVX planner, every pair a | b of 11-smooth lengths below the second limit: no panic, second answer has the requested length and direction and advertises at most 12 n + 64 scratch; for the workspace clause of C05 under history additionally every prime b below the third limit requested after each a = 2^i 3^j in [2b-1, 12b] (the lengths a Bluestein search can consider)', 'avx,sse'),
    ('scalar_pairs', ['C04', 'C06', 'C10', 'C12'], 'scalar_pairs:450', 'scalar_pairs:1500',
     'same for FftPlannerScalar<f64>: every ordered pair of requests below the limit, same and opposite direction'),
    ('simd_history', ['C04', 'C06', 'C10'], 'simd_history:1', 'simd_history:1000',
     'history on one AVX / SSE planner: every ordered pair of requests over 11 (thorough 18) related lengths x 2 directions: len, direction, result equals the portable transform up to rounding; replicas: 6 planners of each kind fed the same sequence (two cached candidate inner lengths, then a Bluestein prime; related smooth lengths) must return bit-identical outputs', 'avx,sse'),
    ('dft_scalar', ['C01', 'C06', 'C12', 'C14'], 'dft_scalar:400+', 'dft_scalar:2500+',
     'floating-point algebra is outside both verifiers: FftPlannerScalar<f64> against the DFT definition through all four entry points (NaN-filled exact scratch and output): unit impulses and two-impulse sums for every n below the limit and structured lengths up to 16384 (thorough: up to 131072 incl. Bluestein/Rader primes above 65536), dense vector vs naive sum for n <= 256'),
    ('foreign', ['C13', 'C14'], 'foreign:200', 'foreign:1000',
     'C14 with element types other than f32 / f64 (replay/incrate_foreign.rs): (1) the exact prime field GF(p), p = 1 mod 2^6 3^2 5 7 37 41 43, whose from_f64 maps cos / sin of rational angles to roots of unity (type written by the seeding sub-agent of C14-3, reused): FftPlanner and FftPlannerScalar transforms of the 51 lengths dividing N (Rader lengths 37, 41, 43 and multiples included) equal the O(n^2) DFT over GF(p)[i] exactly on a random vector (Schwartz-Zippel) and, for n <= 16, on the impulse basis, through three entry points; (2) an f64 in a 16-byte struct whose validity tag every operation checks: FftPlanner<Wide> for every n below the limit is bit-identical to FftPlannerScalar<f64> (in-place and immutable entry points); (3) FftPlannerAvx / FftPlannerSse decline both types (Err, no panic) after planners for f32 and f64 were created in the same process', 'avx,sse'),
    ('compose', ['C01', 'C03', 'C09', 'C12'], 'compose:64,0', 'compose:96,1',
     'composition of the PUBLIC constructors (C12) against the DFT definition: leaves Dft(1..7) and twelve fixed-size butterflies, both directions; depth 1: MixedRadix, MixedRadixSmall, GoodThomasAlgorithm(Small) over every ordered pair of leaves, Radix4 / Radix3::new_with_base (k <= 2), RadersAlgorithm (prime length), BluesteinsAlgorithm with the largest, second largest and smallest admissible length for the inner transform (inner length == 2 len - 1 included); composite length below the limit; thorough: depth 2 over a third of the depth-1 nodes and the small leaves; each built within its documented precondition (a panic is reported) and run through the four entry points with NaN-filled exact scratch'),
    ('primroot', ['C01', 'C06', 'C12', 'C14'], 'primroot:2000000', 'primroot:16777216',
     'mathematical axiom behind math_utils::primitive_root (the Verus unit prime_roots proves distinct_prime_factors, modular_exponent and that primitive_root returns the least candidate passing the generator test; that such a candidate exists and has multiplicative order p - 1, which is what makes Rader\'s index maps permutations, needs the theory of cyclic groups): every prime below the limit, order checked with an independent factorization and exponentiation'),
    ('sqrt_limit', ['C04'], 'sqrt_limit', 'sqrt_limit', 'A-sqrt: ((m*m) as f32).sqrt() as usize >= m for every m < 2^24 on this CPU (exhaustive)'),
    ('MixedRadix', ['C08', 'C09', 'C12'], 'MixedRadix', 'MixedRadix', 'scratch-content independence (C08 iii) and panic-freedom of the real wrapper over contract-checking stubs; bound: inner lengths <= 4, inner scratch needs in {0,1,len-1,len,len+1,2len+3,3len^2+1}'),
    ('MixedRadixSmall', ['C08', 'C09', 'C12'], 'MixedRadixSmall', 'MixedRadixSmall', 'same, MixedRadixSmall'),
    ('GoodThomasAlgorithm', ['C08', 'C09', 'C12'], 'GoodThomasAlgorithm', 'GoodThomasAlgorithm', 'same, GoodThomasAlgorithm (incl. the assumed reindex_input/reindex_output)'),
    ('GoodThomasAlgorithmSmall', ['C08', 'C09', 'C12'], 'GoodThomasAlgorithmSmall', 'GoodThomasAlgorithmSmall', 'same, GoodThomasAlgorithmSmall (incl. the assumed constructor contract)'),
    ('Radix4', ['C08', 'C09', 'C12'], 'Radix4', 'Radix4', 'Radix4::new_with_base over contract-checking stubs, k <= 2, base <= 5'),
    ('Radix3', ['C08', 'C09', 'C12'], 'Radix3', 'Radix3', 'Radix3::new_with_base over contract-checking stubs, k <= 2, base <= 5'),
    ('RadersAlgorithm', ['C08', 'C09', 'C12'], 'RadersAlgorithm', 'RadersAlgorithm', 'RadersAlgorithm::new over contract-checking stubs, prime lengths <= 5'),
    ('BluesteinsAlgorithm', ['C08', 'C09', 'C12'], 'BluesteinsAlgorithm', 'BluesteinsAlgorithm', 'BluesteinsAlgorithm::new over contract-checking stubs, inner <= 5'),
]


def run_bounded(prop, tier):
    items = [b for b in BOUNDED if prop in b[1]]
    if not items:
        return []
    import replay_engine
    t0 = time.time()
    exes = {}
    for feats in sorted(set((b[5] if len(b) > 5 else '') for b in items)):
        exes[feats] = replay_engine.build(REPO, BUILD, feats)

    def one(b):
        arg = b[2] if tier == 'quick' else b[3]
        exe, err = exes[b[5] if len(b) > 5 else '']
        if exe is None:
            return {'name': 'bn:' + b[0], 'status': 'inconclusive', 'reason': 'replay build failed: ' + err[-400:], 'stands_in_for': b[4]}
        t1 = time.time()
        cmd = [exe, arg]
        if len(b) > 6 and b[6] == 'valgrind':
            import shutil
            if not shutil.which('valgrind'):
                return {'name': 'bn:' + b[0], 'status': 'inconclusive', 'reason': 'valgrind is not installed', 'arg': arg, 'stands_in_for': b[4]}
            cmd = ['valgrind', '-q', '--error-exitcode=9', '--errors-for-leak-kinds=none', exe, arg]
        try:
            p = subprocess.run(cmd, capture_output=True, text=True, timeout=3000)
        except subprocess.TimeoutExpired:
            return {'name': 'bn:' + b[0], 'status': 'inconclusive', 'reason': 'timeout', 'arg': arg, 'stands_in_for': b[4]}
        out = p.stdout.strip()
        r = {'name': 'bn:' + b[0], 'arg': arg, 'wall_s': round(time.time() - t1, 2), 'stands_in_for': b[4], 'kind': 'bounded-native'}
        if p.returncode not in (0, 1):
            # the real code crashed (e.g. `unsafe precondition(s) violated` abort from a debug-assertion build)
            errl = [l for l in p.stderr.split('\n') if l.strip()]
            case = [l for l in errl if l.startswith('CASE ')]
            vg = [re.sub(r'^==\d+==\s*', '', l) for l in errl if re.match(r'==\d+==', l)]
            if vg:
                # first memcheck report: the CASE line printed just before it names the call
                first = next(i for i, l in enumerate(errl) if re.match(r'==\d+==', l))
                case = [l for l in errl[:first] if l.startswith('CASE ')]
                out = 'WITNESS %s: valgrind memcheck: %s %s: %s' % (arg, vg[0], ('in ' + case[-1][5:]) if case else '', ' | '.join(vg[1:4]))
            else:
                out = 'WITNESS %s: process terminated abnormally (exit status %s) %s: %s' % (arg, p.returncode, ('in ' + case[-1][5:]) if case else '', ' | '.join([l for l in errl if not l.startswith('CASE ')][-3:]))
        if out.startswith('WITNESS'):
            r['status'] = 'fail'
            r['failure'] = {'obligation': 'bn:%s' % b[0], 'function': b[0], 'message': 'bounded check found a failing input', 'where': [],
                            'rendered': out, 'witness': out, 'tags': []}
        elif out.startswith('NOWITNESS'):
            r['status'] = 'ok'
        else:
            r['status'] = 'inconclusive'
            r['reason'] = (out + p.stderr)[-400:]
        return r
    with cf.ThreadPoolExecutor(max_workers=8) as ex:
        res = list(ex.map(one, items))
    return res


def load_known():
    p = os.path.join(ROOT, 'known_findings.txt')
    known = []
    if os.path.exists(p):
        for ln in open(p):
            ln = ln.strip()
            if ln.startswith('finding:'):
                m = re.search(r'property=(\S+)\s+obligation=(\S+)\s*(.*)', ln)
                if m:
                    known.append({'property': m.group(1), 'obligation': m.group(2), 'what': m.group(3)})
    return known


def slug(s):
    return re.sub(r'[^A-Za-z0-9_.-]+', '_', s)[:120]


def check(prop, tier, seed):
    t0 = time.time()
    os.makedirs(EVID, exist_ok=True)
    os.makedirs(REPLAY_DIR, exist_ok=True)
    outdir = os.path.join(BUILD, 'vx', '%s_%s_%d' % (prop, tier, os.getpid()))
    os.makedirs(outdir, exist_ok=True)
    units = units_for(prop, tier)
    results = []
    with cf.ThreadPoolExecutor(max_workers=4) as ex:
        futs = [ex.submit(run_unit, u, m, outdir) for (u, m) in units]
        for f in futs:
            results.append(f.result())
    # Kani groups
    kani_results = []
    try:
        import kani_engine
        kani_results = kani_engine.run_for(prop, tier, REPO, BUILD)
    except ImportError:
        pass
    # reachability probes / canaries (thorough tier, and quick for the helpers unit)
    probe_results = []
    try:
        import probes
        probe_results = probes.run_for(prop, tier, units, outdir, run_unit_text)
    except ImportError:
        pass

    bounded_results = run_bounded(prop, tier)
    known = load_known()
    failures = []
    inconclusive = []
    for r in results:
        um = extract.unit_meta(r['unit'])
        for f in r['failures']:
            if f.get('tags'):
                if prop not in f['tags']:
                    continue
            elif prop not in um['props']:
                continue
            failures.append(f)
        if r['status'] == 'inconclusive':
            inconclusive.append('vx:%s[%s]: %s' % (r['unit'], r['mode'], '; '.join(r['tool_errors'])[:600]))
    for k in kani_results:
        for f in k.get('failures', []):
            failures.append(f)
        if k.get('status') == 'inconclusive':
            inconclusive.append('kn:%s: %s' % (k['harness'], k.get('reason', '')[:300]))
    for b in bounded_results:
        if b['status'] == 'fail':
            failures.append(b['failure'])
        elif b['status'] == 'inconclusive':
            inconclusive.append('%s: %s' % (b['name'], b.get('reason', '')[:300]))
    for p in probe_results:
        if p['status'] == 'fail':
            failures.append(p['failure'])
        elif p['status'] == 'inconclusive':
            inconclusive.append('probe:%s: %s' % (p['name'], p.get('reason', '')[:300]))

    violations = []
    for f in failures:
        kn = [k for k in known if k['property'] == prop and k['obligation'] == f['obligation']]
        if kn:
            print('KNOWN-FINDING: property=%s %s (%s)' % (prop, kn[0]['what'], f['obligation']))
            continue
        violations.append(f)

    # replay files
    vio_lines = []
    for f in violations:
        rp = os.path.join(REPLAY_DIR, '%s-%s.txt' % (prop, slug(f['obligation'])))
        witness = None
        if f.get('witness'):
            witness = {'found': True, 'text': f['witness']}
        else:
            try:
                import replay_engine
                witness = replay_engine.search(prop, f, REPO, BUILD)
            except ImportError:
                pass
        with open(rp, 'w') as fh:
            fh.write('property: %s\nfailed obligation: %s\nfunction: %s\nverifier message: %s\n' % (prop, f['obligation'], f.get('function'), f.get('message')))
            fh.write('where:\n' + ''.join('  %s\n' % w for w in f.get('where', [])))
            fh.write('\n--- verifier output ---\n%s\n' % f.get('rendered', ''))
            if witness and witness.get('found'):
                fh.write('\n--- counterexample replayed on the real code ---\n%s\n' % witness['text'])
            else:
                fh.write('\n--- replay ---\nno-failing-input-found: %s\n' % ((witness or {}).get('text') or 'the verifier gives no counterexample for this obligation and no concrete search is registered for it'))
        tail = '' if (witness and witness.get('found')) else ' no-failing-input-found'
        ln_ = 'VIOLATION property=%s replay=%s%s' % (prop, rp, tail)
        if ln_ not in vio_lines:    # the same obligation can fail in several instantiations of one template (f32 / f64 module)
            vio_lines.append(ln_)

    # evidence
    # obligations of this property: every discharged function-level VC set, plus the functions with a failure attributed
    # to this property.  Functions whose only failures are attributed to other properties (clause tags) are excluded
    # from both counts and listed under 'excluded_failed_elsewhere'.
    mine = set((f['obligation'].split('/')[0], f.get('function')) for f in failures)
    excluded = sum(r.get('error_fns', 0) for r in results) - len([1 for (u, fn) in mine if not u.startswith('kn:')])
    discharged = sum(r['discharged'] for r in results) + sum(k.get('discharged', 0) for k in kani_results) + sum(p.get('discharged', 0) for p in probe_results)
    obligations = discharged + len(mine) + sum(k.get('obligations', 0) - k.get('discharged', 0) for k in kani_results)
    fns = []
    for r in results:
        for fn in r['functions']:
            fns.append('%s %s:%d [%s %s%s]' % (fn['name'], fn['file'], fn['line'], r['unit'], r['mode'], ', assumed (external_body)' if fn['external'] else ''))
    assumptions = set()
    for r in results:
        for a in r.get('assumption_scan', []):
            assumptions.add('vx:%s: %s' % (r['unit'], a))
        for lg in r.get('log', []):
            if 'assumption' in lg:
                assumptions.add('vx:%s: %s' % (r['unit'], lg['assumption']))
    for k in kani_results:
        for a in k.get('assumptions', []):
            assumptions.add('kn: ' + a)
    samples = []
    for r in results:
        for q in (r.get('queries') or [])[:400]:
            samples.append('%s[%s] %s: %s' % (r['unit'], r['mode'], q['function'], 'discharged' if q['ok'] else 'FAILED'))
    for k in kani_results:
        samples.append('kani %s (%s): %s' % (k['harness'], k.get('kind', '?'), k.get('status')))
    ev = {
        'property_id': prop, 'tier': tier, 'seed': seed, 'level': 'proof',
        'coverage': {
            'obligations': obligations, 'discharged': discharged,
            'checker_cmd': 'python3 /verif/run.py check %s --tier %s   (per unit: verus <unit>_<mode>.rs --output-json --time --error-format=json; per harness: cargo kani ... --harness <h>)' % (prop, tier),
            'trusted_base': TRUSTED_BASE,
            'samples': samples[:60] or ['(none)'],
            'obligation_unit': 'Verus: one obligation = one function-level verification condition set (all requires at call sites, ensures, invariants, index/overflow/assert sites of that function); Kani: one harness',
            'verus_units': [{k: r.get(k) for k in ('unit', 'mode', 'status', 'obligations', 'discharged', 'clauses', 'smt_ms', 'wall_s', 'rules', 'sha256', 'tool_errors', 'memoized')} for r in results],
            'kani_harnesses': [{k: v for k, v in kr.items() if k not in ('failures',)} for kr in kani_results],
            'probes': probe_results,
            'bounded_checks_not_counted_as_proved': [{k: v for k, v in b.items() if k != 'failure'} for b in bounded_results],
            'functions_under_contract': fns,
            'solver_time_ms': {'z3_via_verus': sum(r.get('smt_ms', 0) for r in results), 'cbmc_via_kani_s': sum(k.get('wall_s', 0) for k in kani_results)},
            'failed_obligations': [f['obligation'] for f in failures],
            'excluded_failed_elsewhere': max(excluded, 0),
            'inconclusive': inconclusive,
            'exhaustive': False,
        },
        'assumptions': sorted(assumptions),
        'wall_s': round(time.time() - t0, 2),
        'violations': len(violations),
    }
    if obligations == 0:
        # keep schema-valid even when nothing could be run
        ev['level'] = 'other'
        ev['coverage']['explanation'] = 'no obligation could be generated on this tree: ' + '; '.join(inconclusive)[:1000]
    with open(os.path.join(EVID, prop + '.json'), 'w') as fh:
        json.dump(ev, fh, indent=1)

    if not os.environ.get('VERIF_KEEP'):
        shutil.rmtree(outdir, ignore_errors=True)

    for r in results:
        print('unit %-22s mode %s: %-12s obligations %d/%d  %.1fs' % (r['unit'], r['mode'], r['status'], r['discharged'], r['obligations'], r['wall_s']))
    for k in kani_results:
        print('kani %-40s %-9s %-12s %.1fs' % (k['harness'], k.get('kind', ''), k.get('status'), k.get('wall_s', 0)))
    for p in probe_results:
        print('probe %-40s %s' % (p['name'], p['status']))
    for b in bounded_results:
        print('bounded %-34s %-12s %s  %.1fs' % (b['name'], b['status'], b.get('arg', ''), b.get('wall_s', 0)))
    for f in failures:
        print('FAILED OBLIGATION %s: %s' % (f['obligation'], f['message']))
    for s in inconclusive:
        print('INCONCLUSIVE %s' % s)
    if vio_lines:
        for v in vio_lines:
            print(v)
        return 1
    if inconclusive:
        return 2
    print('OK property=%s tier=%s obligations=%d discharged=%d wall=%.1fs' % (prop, tier, obligations, discharged, time.time() - t0))
    return 0


def run_unit_text(unit, mode, text, linemap, gen, outdir, tag):
    """used by probes: verify an already generated (and possibly mutated) text"""
    fname = '%s_%s_%s.rs' % (unit, mode, tag)
    path = os.path.join(outdir, fname)
    with open(path, 'w') as f:
        f.write(text)
    js, diags, raw, wall, cmd = run_verus(path)
    r = analyse(unit, mode, gen, text, linemap, js, diags, raw, fname)
    r['wall_s'] = wall
    return r


def main():
    ap = argparse.ArgumentParser()
    sub = ap.add_subparsers(dest='cmd')
    c = sub.add_parser('check')
    c.add_argument('prop')
    c.add_argument('--tier', default=os.environ.get('VERIF_TIER', 'quick'))
    u = sub.add_parser('unit')
    u.add_argument('unit')
    u.add_argument('mode', nargs='?', default='S')
    u.add_argument('--keep', action='store_true')
    sub.add_parser('setup')
    a = ap.parse_args()
    seed = int(os.environ.get('VERIF_SEED', '0') or 0)
    if a.cmd == 'check':
        sys.exit(check(a.prop, a.tier, seed))
    elif a.cmd == 'setup':
        os.makedirs(BUILD, exist_ok=True)
        os.makedirs(REPLAY_DIR, exist_ok=True)
        import replay_engine
        exe, err = replay_engine.build(REPO, BUILD)
        print('replay build:', exe or err)
        # warm the verifier
        d = os.path.join(BUILD, 'vx', 'warm')
        os.makedirs(d, exist_ok=True)
        with open(os.path.join(d, 'w.rs'), 'w') as f:
            f.write('use vstd::prelude::*;\nverus!{ fn f(x: u8) -> (r: u8) ensures r == x { x } }\nfn main(){}\n')
        js, diags, raw, wall, cmd = run_verus(os.path.join(d, 'w.rs'))
        ok = bool(js and js.get('verification-results', {}).get('success'))
        print('verus warm-up:', 'ok' if ok else 'FAILED', '%.1fs' % wall)
        sys.exit(0 if ok else 1)
    elif a.cmd == 'unit':
        outdir = os.path.join(BUILD, 'vx', 'dbg')
        os.makedirs(outdir, exist_ok=True)
        r = run_unit(a.unit, a.mode, outdir)
        print(json.dumps({k: v for k, v in r.items() if k not in ('queries', 'log', 'functions', 'tool_errors', 'failures', 'assumption_scan')}, indent=1))
        for e in r['tool_errors']:
            print('TOOL-ERROR:', e)
        for f in r['failures']:
            print(f['obligation'], f.get('tags'))
            print(f['rendered'])
        sys.exit({'ok': 0, 'fail': 1}.get(r['status'], 2))
    else:
        ap.print_help()
        sys.exit(2)


if __name__ == '__main__':
    main()
