#!/usr/bin/env python3
"""Regenerates seeded/*/meta.json (tools/mkseedmeta.py) and replaces the table between the SEEDTABLE markers of DESIGN.md 10.5,
followed by a one-paragraph tally."""
import re, subprocess, os, json, glob
ROOT = os.path.dirname(os.path.dirname(os.path.abspath(__file__)))
out = subprocess.run(['python3', os.path.join(ROOT, 'tools', 'mkseedmeta.py')], capture_output=True, text=True).stdout
metas = [json.load(open(f)) for f in sorted(glob.glob(os.path.join(ROOT, 'seeded', 'C*-*', 'meta.json')))]
conf = [m for m in metas if m['confirmation']['confirmed']]
p = [m for m in conf if m['failed_proof_obligations']]
b = [m for m in conf if m['bounded_witnesses'] and not m['failed_proof_obligations']]
i = [m for m in conf if not m['failed_proof_obligations'] and not m['bounded_witnesses'] and m['inconclusive']]
miss = [m for m in conf if not m['failed_proof_obligations'] and not m['bounded_witnesses'] and not m['inconclusive']]
tally = ('\n**Tally** (%d confirmed seeds, quick tier of the seed\'s own property): %d caught by a failed proof obligation (%d of them also by a bounded '
         'witness), %d by a bounded-check witness only, %d only INCONCLUSIVE (exit 2: %s), %d missed (%s). Rejected seeds (not reproducible with '
         'the pinned test command): %s.\n') % (
    len(conf), len(p), len([m for m in p if m['bounded_witnesses']]), len(b), len(i), ', '.join(m['id'] for m in i) or '-',
    len(miss), ', '.join(m['id'] for m in miss) or '-', ', '.join(m['id'] for m in metas if not m['confirmation']['confirmed']) or '-')
d = os.path.join(ROOT, 'DESIGN.md')
s = open(d).read()
a = s.index('<!-- SEEDTABLE-BEGIN -->') + len('<!-- SEEDTABLE-BEGIN -->')
z = s.index('<!-- SEEDTABLE-END -->')
s = s[:a] + '\n' + out.strip() + '\n' + tally + s[z:]
open(d, 'w').write(s)
print(tally)
