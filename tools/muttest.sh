#!/bin/bash
# usage: tools/muttest.sh <patch.diff | mutation.py> <prop>...   -- runs the checks against a scratch worktree with the change applied
set -u
V=$(cd "$(dirname "$0")/.." && pwd)
W=${MUT_W:-/tmp/rw}
[ -d $W ] || git -C /repo worktree add -q --detach $W HEAD
git -C $W checkout -q --detach main 2>/dev/null; git -C $W checkout -q -- .
ch=$1; shift
case "$ch" in
 *.py) (cd $W && python3 "$ch") || { echo "mutation failed to apply"; exit 3; } ;;
 *) git -C $W apply "$ch" || { echo "patch failed to apply"; exit 3; } ;;
esac
git -C $W diff --stat | tail -1
for p in "$@"; do
  (cd $V && VERIF_BUILD=${W}_build VERIF_EVIDENCE=${W}_build/evidence VERIF_REPO=$W python3 run.py check $p ${TIER:+--tier $TIER} | grep -E "^(VIOLATION|INCONCLUSIVE|OK|KNOWN)" | cut -c1-300 | head -${LINES_MAX:-4}); true
done
git -C $W checkout -q -- .
