#!/usr/bin/env python3
"""Extraction determinism under concurrency: every unit/mode is generated once sequentially and then `rounds` times from a pool of 8
threads (run.py extracts the units of a property concurrently); every concurrent result must be byte-identical to the sequential one.
usage: tools/extract_determinism.py [rounds]   exit 1 on a difference."""
import os, re, sys, concurrent.futures as cf
sys.path.insert(0, '/verif'); sys.path.insert(0, '/verif/vx')
import extract, run as driver
jobs = []
for f in sorted(os.listdir('/verif/vx/units')):
    unit = f[:-3]; head = open('/verif/vx/units/' + f).read()
    m = re.search(r'(?m)^//@ modes (.*)$', head)
    for mode in (m.group(1).split() if m else ['S']):
        jobs.append((unit, mode))
base = {j: extract.generate(j[0], j[1], driver.REPO)[1] for j in jobs}
bad = 0
def g(j):
    return j, extract.generate(j[0], j[1], driver.REPO)[1]
for rnd in range(int(sys.argv[1]) if len(sys.argv) > 1 else 3):
    with cf.ThreadPoolExecutor(8) as ex:
        for j, text in ex.map(g, jobs):
            if text != base[j]:
                bad += 1; print('DIFF', j, 'round', rnd)
print('%d units/modes, differences: %d' % (len(jobs), bad))
sys.exit(1 if bad else 0)
