#!/usr/bin/env python3
"""Writes the two kernel TEMPLATES vx/lib/avx_kernels_f32.vx / _f64.vx (directive lists: which function of which struct, with which
fixed length and which statement macros inlined).  The templates are committed; the verified text is extracted from /repo by
vx/extract.py on every run."""
import os
ROOT = os.path.dirname(os.path.dirname(os.path.abspath(__file__)))
COMMENT = "// ---- lib/avx_kernels ($F, FB = the butterflies file, M256/M128 = the register type names in it, CPV complex numbers per 256-bit register):\n// the fixed-size AVX butterfly kernels, verified on the index level from their real text: every accessor call\n// (`buffer.load_*(i)` / `buffer.store_*(v, i)`) against the accessor's own debug_assert bound (pinned to avx_vector.rs, discharged\n// there by the Kani accessor harnesses), every index into a twiddle table or a register array returned by a register-level function.\n// Declared rewrite: the kernel's `mut buffer: impl AvxArrayMut<$F>` is passed either one slice (in place) or `DoubleBuf { input, output }`\n// whose loads read `input` and whose stores write `output` (pinned); it is rendered as the pair (input, output) - the in-place call is\n// the case where both have the same n elements.  Register values are uninterpreted (vx/avxsigs.py)."

def struct(name):
    return """//@ itemsub? \\b$M256\\b => AvxV
//@ itemsub? \\b$M128\\b => AvxH
//@ itemsub std::marker::PhantomData => core::marker::PhantomData
//@ item struct $FB %s
impl<T> %s<T> {
""" % (name, name)

BUF = """//@ sub mut buffer: impl AvxArrayMut<$F> => verif_in: &[Complex<T>], verif_out: &mut [Complex<T>]
//@ sub buffer\\s*\\.load_(complex|partial[123]_complex)\\(\\s* => verif_load_\\1(verif_in, 
//@ sub? _mm_load1_pd\\(buffer\\.input_ptr\\(\\) as \\*const f64\\) => verif_load_first_h(verif_in)
//@ sub? _mm256_loadu2_m128d\\(\\s*buffer\\.input_ptr\\(\\) as \\*const f64,\\s*buffer\\.input_ptr\\(\\) as \\*const f64,?\\s*\\) => verif_load_first_v(verif_in)
//@ sub buffer\\s*\\.store_(complex|partial[123]_complex)\\(\\s* => verif_store_\\1(verif_out, 
//@ spec
    requires verif_in.len() == %(n)d, old(verif_out).len() == %(n)d,
    ensures final(verif_out).len() == old(verif_out).len(),
//@ loopall
        invariant verif_out.len() == %(n)d,
//@ end
"""
COL = """//@ sub mut output: => output:
//@ sub input\\s*\\.load_(complex|partial[123]_complex)\\(\\s* => verif_load_\\1(input, 
//@ sub output\\s*\\.store_(complex|partial[123]_complex)\\(\\s* => verif_store_\\1(output, 
//@ spec
    requires input.len() == %(n)d, old(output).len() == %(n)d,
    ensures final(output).len() == old(output).len(),
//@ loopall
        invariant output.len() == %(n)d,
//@ end
"""
UNINIT = """//@ sub for \\(columnset, twiddle_chunk\\) in\\s*self\\.twiddles\\.chunks_exact\\(TWIDDLES_PER_COLUMN\\)\\.enumerate\\(\\)\\s*\\{ => for columnset in 0..(verif_array_len(&self.twiddles) / TWIDDLES_PER_COLUMN) { let twiddle_chunk = verif_array_chunk(&self.twiddles, columnset * TWIDDLES_PER_COLUMN, TWIDDLES_PER_COLUMN);
//@ sub let mut mid_uninit: \\[MaybeUninit<$M256>; 16\\] = \\[MaybeUninit::<$M256>::uninit\\(\\); 16\\]; => let mut mid_uninit: [AvxV; 16] = [AvxVector::zero(); 16];
//@ sub mid_uninit\\[index\\]\\.as_mut_ptr\\(\\)\\.write\\(data\\); => mid_uninit[index] = data;
//@ sub \\.assume_init\\(\\) => 
"""

def fn(name, f, n, inline=None, extra=''):
    t = '//@ fn $FB %s::%s\n//@ attr #[verifier::loop_isolation(false)]\n' % (name, f)
    if inline:
        t += '//@ inline src/avx/avx_vector.rs %s\n' % inline
    t += extra
    t += (COL if f == 'column_butterflies_and_transpose' else BUF) % {'n': n}
    return t

def write(F, suffix, simple, scratch):
    out = [COMMENT, 'pub mod avx_kernels_$F {', 'use super::*;', '//@ include lib/avx_kernels_head.vx F=$F M256=$M256 M128=$M128 CPV=$CPV', '']
    for n in simple:
        nm = 'Butterfly%dAvx%s' % (n, suffix)
        out.append(struct(nm) + fn(nm, 'perform_fft_$F', n) + '}\n')
    for n, colinl, rowinl, uninit in scratch:
        nm = 'Butterfly%dAvx%s' % (n, suffix)
        out.append(struct(nm) + fn(nm, 'column_butterflies_and_transpose', n, colinl, UNINIT if uninit else '') + fn(nm, 'row_butterflies', n, rowinl) + '}\n')
    out.append('} // mod avx_kernels_$F\n')
    open(os.path.join(ROOT, 'vx', 'lib', 'avx_kernels_%s.vx' % F), 'w').write('\n'.join(out))

write('f32', '', [5, 7, 11, 8, 9, 12, 16, 24, 27, 32, 36, 48, 54, 64, 72],
      [(128, None, 'column_butterfly16_loadfn', False), (256, None, 'column_butterfly32_loadfn', False), (512, 'column_butterfly16_loadfn', 'column_butterfly32_loadfn', True)])
write('f64', '64', [5, 7, 11, 8, 9, 12, 16, 18, 24, 27, 32, 36],
      [(64, None, None, False), (128, None, 'column_butterfly16_loadfn', False), (256, None, 'column_butterfly32_loadfn', False), (512, 'column_butterfly16_loadfn', 'column_butterfly32_loadfn', True)])
