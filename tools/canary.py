#!/usr/bin/env python3
"""usage: tools/canary.py <unit> [substring-of-regex]  -- run the canary mutants of one unit (vx/probes.py CANARIES) and print
killed / SURVIVED with the failed obligations (development aid; the thorough tier runs all of them)"""
import os, re, sys, tempfile
ROOT = os.path.dirname(os.path.dirname(os.path.abspath(__file__)))
sys.path.insert(0, ROOT); sys.path.insert(0, os.path.join(ROOT, 'vx'))
import run as driver, extract, probes
unit = sys.argv[1]; sub = sys.argv[2] if len(sys.argv) > 2 else ''
out = tempfile.mkdtemp(prefix='canary_', dir=os.path.join(driver.BUILD, 'vx'))
rc = 0
for (u, mode, rg, rp, fn) in probes.CANARIES:
    if u != unit or sub not in rg:
        continue
    gen, text, linemap = extract.generate(u, mode, driver.REPO)
    mutated, k = re.subn(rg, rp, text, count=1)
    if k == 0:
        print('NOMATCH', rg[:70]); rc = 1; continue
    r = driver.run_unit_text(u, mode, mutated, linemap, gen, out, 'c%d' % (abs(hash(rg)) % 99999))
    obs = [(f['obligation'], f.get('tags')) for f in r['failures']]
    print('KILLED' if obs else 'SURVIVED', rg[:70], obs[:3], (r.get('tool_errors') or [''])[0][:200])
    if not obs: rc = 1
import shutil; shutil.rmtree(out, ignore_errors=True)
sys.exit(rc)
