#!/bin/bash
# usage: tools/confirm_seed2.sh <srcdir> <k> <outid> : confirms <srcdir>/change<k>.diff in a scratch worktree:
#  (1) applies cleanly, (2) full test suite passes with it, (3) demo fails with it, (4) demo passes without it.
# On success stores /verif/seeded/<outid>/{patch.diff,demo.rs,notes.md,confirm.log}
set -u
SRC=$1; K=$2; ID=$3
W=/tmp/confirm_$ID
OUT=/verif/seeded/$ID
mkdir -p $OUT
LOG=$OUT/confirm.log
: > $LOG
git -C /repo worktree add -q --detach $W main >>$LOG 2>&1 || { echo "worktree failed" | tee -a $LOG; exit 3; }
export CARGO_TARGET_DIR=$W/target CARGO_NET_OFFLINE=true
cd $W
ok=1
git apply $SRC/change$K.diff >>$LOG 2>&1 || { echo "APPLY FAILED" | tee -a $LOG; ok=0; }
if [ $ok = 1 ]; then
  echo "== full suite with change" >>$LOG
  cargo test --offline --workspace -j 5 >>$LOG.suite 2>&1; rc=$?
  grep -E "^test result|FAILED|failed" $LOG.suite | head -20 >>$LOG
  [ $rc = 0 ] && echo "SUITE PASS with change" | tee -a $LOG || { echo "SUITE FAIL with change" | tee -a $LOG; ok=0; }
  cp $SRC/demo$K.rs tests/verif_demo.rs
  echo "== demo with change" >>$LOG
  cargo test --offline --test verif_demo -j 5 >>$LOG.demo1 2>&1; rc=$?
  tail -5 $LOG.demo1 >>$LOG
  [ $rc != 0 ] && echo "DEMO FAILS with change (expected)" | tee -a $LOG || { echo "DEMO PASSES with change (unexpected)" | tee -a $LOG; ok=0; }
  git apply -R $SRC/change$K.diff >>$LOG 2>&1
  echo "== demo without change" >>$LOG
  cargo test --offline --test verif_demo -j 5 >>$LOG.demo0 2>&1; rc=$?
  tail -5 $LOG.demo0 >>$LOG
  [ $rc = 0 ] && echo "DEMO PASSES without change (expected)" | tee -a $LOG || { echo "DEMO FAILS without change (unexpected)" | tee -a $LOG; ok=0; }
fi
cd /verif
git -C /repo worktree remove --force $W
rm -f $LOG.suite $LOG.demo1 $LOG.demo0
if [ $ok = 1 ]; then
  cp $SRC/change$K.diff $OUT/patch.diff; cp $SRC/demo$K.rs $OUT/demo.rs; cp $SRC/notes$K.md $OUT/notes.md
  echo "CONFIRMED $ID" | tee -a $LOG
else
  echo "REJECTED $ID" | tee -a $LOG
fi
