#!/bin/bash
# usage: tools/seedmatrix.sh [seed-id ...]  -- runs the registered check of each seeded change's property against a scratch
# worktree with the change applied (tools/muttest.sh) and stores the verdict lines in seeded/<id>/check.log
V=$(cd "$(dirname "$0")/.." && pwd)
cd $V
ids="$@"
[ -z "$ids" ] && ids=$(ls seeded)
for id in $ids; do
  d=seeded/$id
  [ -f $d/patch.diff ] || continue
  p=${id%%-*}
  echo "== $id ($(date +%H:%M:%S))"
  LINES_MAX=30 tools/muttest.sh $V/$d/patch.diff $p > $d/check.log 2>&1
  grep -cE "^VIOLATION" $d/check.log | sed "s/^/   violations: /"
  grep -E "^INCONCLUSIVE" $d/check.log | cut -c1-140 | head -3
done
