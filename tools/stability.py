#!/usr/bin/env python3
"""Solver-stability sweep: every unit/mode is generated from /repo and verified under several z3 seeds.
usage: tools/stability.py [seed ...]      (default seeds 1 2 3)
Prints one line per (unit, mode, seed); a line with errors>0 names a flaky (or failing) obligation to harden."""
import os, re, sys, json, subprocess, concurrent.futures as cf
sys.path.insert(0, '/verif'); sys.path.insert(0, '/verif/vx')
import extract, run as driver

seeds = [int(x) for x in sys.argv[1:]] or [1, 2, 3]
out = os.path.join(driver.BUILD, 'vx', 'stab')
os.makedirs(out, exist_ok=True)
jobs = []
for f in sorted(os.listdir('/verif/vx/units')):
    unit = f[:-3]
    head = open('/verif/vx/units/' + f).read()
    m = re.search(r'(?m)^//@ modes (.*)$', head)
    for mode in (m.group(1).split() if m else ['S']):
        gen, text, linemap = extract.generate(unit, mode, driver.REPO)
        p = os.path.join(out, '%s_%s.rs' % (unit, mode))
        open(p, 'w').write(text)
        for s in seeds:
            jobs.append((unit, mode, s, p))

def one(j):
    unit, mode, s, p = j
    r = subprocess.run(['verus', os.path.basename(p), '--num-threads', '2', '--smt-option', 'smt.random_seed=%d' % s],
                       cwd=out, capture_output=True, text=True)
    m = re.search(r'verification results:: (\d+) verified, (\d+) errors', r.stdout + r.stderr)
    errs = re.findall(r'(?m)^error: (.*)$', r.stderr)
    return (unit, mode, s, m.group(0) if m else 'NO RESULT', errs[:4])

with cf.ThreadPoolExecutor(7) as ex:
    for unit, mode, s, res, errs in ex.map(one, jobs):
        print('%-14s %s seed=%-3d %s %s' % (unit, mode, s, res, errs if errs else ''), flush=True)
