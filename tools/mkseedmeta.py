#!/usr/bin/env python3
"""Writes seeded/<id>/meta.json from the stored artefacts:
   notes.md (the sub-agent's description), confirm.log (my confirmation in a scratch worktree), check.log (my checks on it).
   Also prints the DESIGN 10.4 table."""
import glob, json, os, re

ROOT = '/verif/seeded'
rows = []
for d in sorted(glob.glob(ROOT + '/C*-*')):
    sid = os.path.basename(d)
    prop = sid.split('-')[0]
    notes = open(d + '/notes.md').read() if os.path.exists(d + '/notes.md') else ''
    conf = open(d + '/confirm.log').read() if os.path.exists(d + '/confirm.log') else ''
    chk = open(d + '/check.log').read() if os.path.exists(d + '/check.log') else ''
    title = ''
    m = re.search(r'(?m)^#\s*(.+)$', notes)
    if m:
        title = re.sub(r'^[Cc]hange\s*\d+\s*[-—:]*\s*', '', m.group(1)).strip()
    needs = ''
    m = re.search(r'(?ms)^##[^\n]*(needed|manifest)[^\n]*\n(.*?)(?=^## |\Z)', notes)
    if m:
        needs = ' '.join(m.group(2).split())[:1200]
    confirmed = 'CONFIRMED' in conf
    viol = sorted(set(re.findall(r'(?m)^VIOLATION property=\S+ replay=\S*/(\S+?)\.txt( no-failing-input-found)?', chk)))
    inconc = sorted(set(l[:160] for l in re.findall(r'(?m)^INCONCLUSIVE (.*)$', chk)))
    proof = [v[0] for v in viol if '-bn_' not in v[0] and '-kn_' not in v[0]]
    bounded = [v[0] for v in viol if '-bn_' in v[0] or '-kn_' in v[0]]
    if not confirmed:
        verdict = 'rejected-seed'
    elif proof:
        verdict = 'caught: failed proof obligation' + (' + bounded witness' if bounded else '')
    elif bounded:
        verdict = 'caught: bounded check witness' + (' (proof level inconclusive)' if inconc else '')
    elif inconc:
        verdict = 'not caught: inconclusive only'
    else:
        verdict = 'missed'
    meta = {
        'id': sid, 'property': prop,
        'origin': 'fresh sub-agent given only the property text and its own scratch git worktree of /repo under /tmp (nothing from /verif)',
        'change': title,
        'files': sorted(set(re.findall(r'(?m)^\+\+\+ b/(\S+)', open(d + '/patch.diff').read()))) if os.path.exists(d + '/patch.diff') else [],
        'needs_to_manifest': needs,
        'confirmation': {
            'how': 'tools/confirm_seed.sh: scratch worktree of /repo main; patch applies; `cargo test --offline --workspace` passes with the change; '
                   'demo (tests/verif_demo.rs) fails with the change and passes without it; worktree and target dir removed afterwards',
            'confirmed': confirmed,
            'log_tail': [l for l in conf.strip().split('\n')[-6:]],
        },
        'checks_run': 'tools/muttest.sh seeded/%s/patch.diff %s  (scratch worktree /tmp/rw, VERIF_REPO=/tmp/rw python3 run.py check %s, quick tier)' % (sid, prop, prop) if chk else 'none',
        'verdict': verdict,
        'failed_proof_obligations': proof,
        'bounded_witnesses': bounded,
        'inconclusive': inconc,
    }
    if sid == 'C13-2':
        meta['rejected_reason'] = 'the change only manifests with --no-default-features --features sse; the pinned test command (default features) cannot see it and the confirmation script runs default features: not kept as a seed'
    json.dump(meta, open(d + '/meta.json', 'w'), indent=1)
    rows.append((sid, title, verdict, proof, bounded, inconc))

print('| seed | change | caught by |')
print('|------|--------|-----------|')
for sid, title, verdict, proof, bounded, inconc in rows:
    def short(v):
        v = re.sub(r'^C\d\d-', '', v)
        v = re.sub(r'_(postcondition|precondition|invariant|assertion|possible|requires)[-_].*$', '', v)
        return v
    p = sorted(set(short(v) for v in proof))[:3]
    b = sorted(set(short(v) for v in bounded))[:4]
    parts = []
    if p: parts.append('P ' + ', '.join('`%s`' % x for x in p))
    if b: parts.append('B ' + ', '.join('`%s`' % x for x in b))
    if inconc and not p: parts.append('I (' + inconc[0].split(':')[0] + ')')
    if not parts: parts = ['**%s**' % verdict]
    print('| %s | %s | %s |' % (sid, title[:110], '; '.join(parts)))
